package main

import (
	"context"
	"encoding/json"
	"flag"
	"fmt"
	"go/types"
	"os"
	"path/filepath"
	"sort"
	"strings"
	"sync"
	"time"
)

type PropConfig struct {
	ID            string            `json:"id"`
	Level         string            `json:"level"`
	Packages      []string          `json:"packages"`
	ContractPkgs  []string          `json:"contract_packages"`
	Functions     []string          `json:"functions"`
	Undecided     map[string]string `json:"undecided"`
	Assumptions   []string          `json:"assumptions"`
	NotDecided    []string          `json:"not_decided"`
	Explanation   string            `json:"explanation"`
	Bounded       []BoundedCheck    `json:"bounded"`
	ReplayHarness map[string]string `json:"replay_harness"`
	MinObligation int               `json:"min_obligations"`
}

type BoundedCheck struct {
	Name  string `json:"name"`
	Cmd   string `json:"cmd"`
	Bound string `json:"bound"`
}

type KnownFinding struct {
	Property   string `json:"property"`
	Obligation string `json:"obligation"`
	Status     string `json:"status"` // known | fixed
	Commit     string `json:"commit,omitempty"`
	What       string `json:"what"`
	Witness    string `json:"witness,omitempty"`
}

type OblResult struct {
	Name    string   `json:"name"`
	Kind    string   `json:"kind"`
	Pos     string   `json:"pos,omitempty"`
	Desc    string   `json:"desc,omitempty"`
	Status  string   `json:"status"`
	Solver  string   `json:"solver,omitempty"`
	Seconds float64  `json:"seconds"`
	Bytes   int      `json:"smt_bytes"`
	Tried   []string `json:"tried,omitempty"`
	file    string
	output  string
	obl     *Obligation
}

func verifDir() string {
	if d := os.Getenv("GOVC_VERIF"); d != "" {
		return d
	}
	return "/verif"
}

func cmdMain(args []string) int {
	if len(args) == 0 {
		return 2
	}
	switch args[0] {
	case "check":
		return cmdCheck(args[1:])
	case "names":
		return cmdNames(args[1:])
	case "snapshot-locals":
		return cmdSnapshotLocals(args[1:])
	}
	fmt.Fprintln(os.Stderr, "unknown command", args[0])
	return 2
}

func cmdCheck(args []string) int {
	fs := flag.NewFlagSet("check", flag.ExitOnError)
	tier := fs.String("tier", "quick", "quick|thorough")
	only := fs.String("only", "", "substring filter on obligation names")
	fn := fs.String("func", "", "only this function")
	list := fs.Bool("list", false, "list obligations, do not solve")
	keep := fs.Bool("keep", false, "keep SMT files")
	verbose := fs.Bool("v", false, "verbose")
	noEvidence := fs.Bool("no-evidence", false, "do not write the evidence file")
	vacuity := fs.Bool("vacuity", false, "diagnostic: for every obligation also ask whether its path is satisfiable under the assumptions; list the vacuous ones (not counted as violations)")
	replay := fs.String("replay", "", "replay a violation file")
	var id string
	if len(args) > 0 && !strings.HasPrefix(args[0], "-") {
		id = args[0]
		args = args[1:]
	}
	fs.Parse(args)
	if id == "" {
		fmt.Fprintln(os.Stderr, "usage: govc check <ID> [--tier quick|thorough]")
		return 2
	}
	if *replay != "" {
		return cmdReplay(id, *replay)
	}
	if t := os.Getenv("VERIF_TIER"); t != "" && *tier == "" {
		*tier = t
	}
	seed := 0
	if s := os.Getenv("VERIF_SEED"); s != "" {
		fmt.Sscanf(s, "%d", &seed)
	}
	t0 := time.Now()
	cfgPath := filepath.Join(verifDir(), "props", id+".json")
	data, err := os.ReadFile(cfgPath)
	if err != nil {
		fmt.Fprintln(os.Stderr, "cannot read property config:", err)
		return 2
	}
	var cfg PropConfig
	if err := json.Unmarshal(data, &cfg); err != nil {
		fmt.Fprintln(os.Stderr, "bad property config:", err)
		return 2
	}
	P, err := LoadProgram(cfg.Packages)
	if err != nil {
		fmt.Fprintln(os.Stderr, "ENGINE-ERROR: cannot load /repo packages:", err)
		return 2
	}
	DB := NewContractDB()
	var cpk []string
	for pp := range P.Pkgs {
		cpk = append(cpk, pp)
	}
	for _, c := range cfg.ContractPkgs {
		c = strings.TrimSuffix(strings.TrimPrefix(c, "./"), "/")
		cpk = append(cpk, modulePath+"/"+c)
	}
	sort.Strings(cpk)
	cpk = uniq(cpk)
	used, err := DB.LoadContractsFor(cpk, verifDir())
	if err != nil {
		fmt.Fprintln(os.Stderr, "ENGINE-ERROR: contracts:", err)
		return 2
	}
	// global extern library
	glob := filepath.Join(verifDir(), "contracts", "_extern.go")
	if _, err := os.Stat(glob); err == nil {
		if err := DB.LoadContractFile(glob, "global"); err != nil {
			fmt.Fprintln(os.Stderr, "ENGINE-ERROR: contracts:", err)
			return 2
		}
	}
	var all []*Obligation
	var encs []*Enc
	var notes []string
	var bindErrs [][2]string // functions whose contract could not be bound to the current code
	funcsUnder := []string{}
	for _, fname := range cfg.Functions {
		if *fn != "" && !strings.Contains(fname, *fn) {
			continue
		}
		f := P.FindFunc(fname)
		if f == nil {
			// the contract can no longer be bound to the code: the property is not
			// established for this tree (reported as a violation without an input)
			bindErrs = append(bindErrs, [2]string{fname, "function under contract not found in the current tree (renamed, removed, or closure ordinals shifted)"})
			continue
		}
		// Houdini pre-pass: automatically guessed loop invariants (counter ranges) that
		// do not discharge are dropped, never assumed.
		disabled := map[string]bool{}
		var e *Enc
		for round := 0; round < 5; round++ {
			e = NewEnc(P, DB, f)
			e.disabledAuto = disabled
			if err := e.Run(); err != nil {
				bindErrs = append(bindErrs, [2]string{fname, err.Error()})
				e = nil
				break
			}
			changed := false
			var autos []*Obligation
			for _, o := range e.obls {
				if strings.Contains(o.Name, ".auto") {
					autos = append(autos, o)
				}
			}
			if len(autos) == 0 {
				break
			}
			os.MkdirAll(filepath.Join(verifDir(), ".work", id+".auto"), 0o755)
			var mu sync.Mutex
			var wg sync.WaitGroup
			sem := make(chan struct{}, 14)
			for _, o := range autos {
				wg.Add(1)
				go func(o *Obligation) {
					defer wg.Done()
					sem <- struct{}{}
					defer func() { <-sem }()
					r, _ := Solve(o, SolverCfg{Timeout: 5 * time.Second, WorkDir: filepath.Join(verifDir(), ".work", id+".auto"), Seed: seed})
					if r.Status != "unsat" {
						// name: fn#loopN.autoK.init / .keep@bM
						nm := o.Name[strings.Index(o.Name, "#")+1:]
						parts := strings.SplitN(nm, ".", 3)
						key := parts[0] + "." + parts[1]
						mu.Lock()
						if !disabled[key] {
							disabled[key] = true
							changed = true
						}
						mu.Unlock()
					}
				}(o)
			}
			wg.Wait()
			os.RemoveAll(filepath.Join(verifDir(), ".work", id+".auto"))
			if !changed {
				break
			}
		}
		if e == nil {
			continue
		}
		for k := range disabled {
			e.note("automatic loop invariant %s does not hold inductively: dropped", k)
		}
		wit := e.witnessTerms()
		for _, o := range e.obls {
			if o.Expect == "unsat" {
				o.Witness = wit
			}
		}
		encs = append(encs, e)
		all = append(all, e.obls...)
		funcsUnder = append(funcsUnder, ShortKey(e.key))
		for _, n := range e.notes {
			notes = append(notes, ShortKey(e.key)+": "+n)
		}
	}
	// lemmas of the packages involved
	lemEnc, lemObls, err := lemmaObligations(P, DB, cfg)
	if err != nil {
		fmt.Printf("ENGINE-ERROR: %v\n", err)
		return 2
	}
	_ = lemEnc
	if *fn == "" {
		all = append(all, lemObls...)
	}
	if *vacuity {
		var extra []*Obligation
		for _, o := range all {
			if o.Expect == "unsat" && o.PC != "" && o.enc != nil && o.Kind != "safe.panic" {
				extra = append(extra, &Obligation{Name: o.Name + "#path", Fn: o.Fn, Kind: "pathcover", Pos: o.Pos, Prefix: o.Prefix,
					Goal: o.PC, Expect: "sat?", Desc: "diagnostic: the path of this obligation is satisfiable", enc: o.enc})
			}
		}
		all = append(all, extra...)
	}
	if *only != "" {
		var f2 []*Obligation
		for _, o := range all {
			if strings.Contains(o.Name, *only) {
				f2 = append(f2, o)
			}
		}
		all = f2
	}
	// unique names
	seen := map[string]int{}
	for _, o := range all {
		seen[o.Name]++
		if seen[o.Name] > 1 {
			o.Name = fmt.Sprintf("%s~%d", o.Name, seen[o.Name])
		}
	}
	if *list {
		for _, o := range all {
			fmt.Printf("%-70s %-24s %s\n", o.Name, o.Pos, o.Desc)
		}
		for _, n := range notes {
			fmt.Println("note:", n)
		}
		return 0
	}
	work := filepath.Join(verifDir(), ".work", id)
	os.RemoveAll(work)
	os.MkdirAll(work, 0o755)
	timeout := 10 * time.Second
	if *tier == "thorough" {
		timeout = 60 * time.Second
	}
	results := make([]*OblResult, len(all))
	var wg sync.WaitGroup
	sem := make(chan struct{}, 14)
	for i, o := range all {
		wg.Add(1)
		go func(i int, o *Obligation) {
			defer wg.Done()
			sem <- struct{}{}
			defer func() { <-sem }()
			r, file := Solve(o, SolverCfg{Timeout: timeout, WorkDir: work, Seed: seed})
			fi, _ := os.Stat(file)
			sz := 0
			if fi != nil {
				sz = int(fi.Size())
			}
			results[i] = &OblResult{Name: o.Name, Kind: o.Kind, Pos: o.Pos, Desc: o.Desc, Status: r.Status, Solver: r.Solver, Seconds: r.Seconds, Bytes: sz, Tried: r.Tried, file: file, output: r.Output, obl: o}
		}(i, o)
	}
	wg.Wait()
	// second pass: portfolio (all solvers, several seeds, both slices) for what the
	// quick first attempt did not settle; two obligations at a time
	{
		pfT := 60 * time.Second
		if *tier == "thorough" {
			pfT = 240 * time.Second
		}
		knownList := loadKnown()
		var pend []*OblResult
		for _, r := range results {
			if r.obl.Expect == "unsat" && r.Status != "unsat" && r.Status != "sat" {
				if _, und := cfg.Undecided[r.Name]; und {
					continue
				}
				if kf := findKnown(knownList, id, r.Name); kf != nil && kf.Status == "known" {
					continue // a recorded finding: no need to spend the portfolio on it
				}
				pend = append(pend, r)
			}
		}
		// many undecided obligations mean the tree changed: the report does not get better by
		// spending a minute on each of them (one undischarged obligation is a violation already)
		par := 2
		if len(pend) > 6 {
			pfT = pfT / 3
			par = 4
		}
		var wg2 sync.WaitGroup
		sem2 := make(chan struct{}, par)
		for _, r := range pend {
			wg2.Add(1)
			go func(r *OblResult) {
				defer wg2.Done()
				sem2 <- struct{}{}
				defer func() { <-sem2 }()
				rr, file := Portfolio(r.obl, SolverCfg{Timeout: pfT, WorkDir: work, Seed: seed})
				r.Tried = append(r.Tried, rr.Tried...)
				r.Seconds += rr.Seconds
				if rr.Status == "unsat" || rr.Status == "sat" {
					r.Status, r.Solver, r.output, r.file = rr.Status, rr.Solver, rr.Output, file
				} else {
					r.Status = rr.Status
				}
			}(r)
		}
		wg2.Wait()
		// third pass: a FEW obligations left undecided (timeout/unknown, no model) are more
		// likely a loaded machine than a broken property - they get one more portfolio run with
		// twice the limit before they are reported. Many undecided obligations mean the
		// tree really changed: no retry (the cost would only delay the report).
		var again []*OblResult
		for _, r := range pend {
			if r.Status != "unsat" && r.Status != "sat" {
				again = append(again, r)
			}
		}
		if len(again) > 0 && len(again) <= 3 {
			var wg4 sync.WaitGroup
			for _, r := range again {
				wg4.Add(1)
				go func(r *OblResult) {
					defer wg4.Done()
					rr, file := Portfolio(r.obl, SolverCfg{Timeout: 2 * pfT, WorkDir: work, Seed: seed + 1})
					r.Tried = append(r.Tried, "retry")
					r.Tried = append(r.Tried, rr.Tried...)
					r.Seconds += rr.Seconds
					if rr.Status == "unsat" || rr.Status == "sat" {
						r.Status, r.Solver, r.output, r.file = rr.Status, rr.Solver+"/retry", rr.Output, file
					}
				}(r)
			}
			wg4.Wait()
		}
	}
	// thorough tier: every proof found by z3-new is re-run on a second, independent solver
	// (z3 4.8.12, then cvc5) on the SAME query; a `sat` there is a solver disagreement and is
	// reported as a violation (one of the two solvers is wrong); unknown/timeout is counted
	crossAgree, crossUnknown, crossDisagree := 0, 0, 0
	if *tier == "thorough" && os.Getenv("GOVC_NOCROSS") == "" {
		var wg3 sync.WaitGroup
		sem3 := make(chan struct{}, 12)
		var mu3 sync.Mutex
		for _, r := range results {
			if r.obl.Expect != "unsat" || r.Status != "unsat" || r.file == "" || !strings.HasPrefix(r.Solver, "z3-new") {
				continue
			}
			wg3.Add(1)
			go func(r *OblResult) {
				defer wg3.Done()
				sem3 <- struct{}{}
				defer func() { <-sem3 }()
				verdict := "unknown"
				for _, sv := range []string{"z3", "cvc5"} {
					st, _, _ := runSolver(context.Background(), sv, r.file, 15*time.Second, seed)
					if st == "unsat" {
						verdict = "agree"
						break
					}
					if st == "sat" {
						verdict = "disagree:" + sv
						break
					}
				}
				mu3.Lock()
				switch {
				case verdict == "agree":
					crossAgree++
				case strings.HasPrefix(verdict, "disagree"):
					crossDisagree++
					r.Status = "solver-disagreement"
					r.Tried = append(r.Tried, verdict)
				default:
					crossUnknown++
				}
				mu3.Unlock()
			}(r)
		}
		wg3.Wait()
		fmt.Printf("cross-check (second solver on the same queries): %d confirmed, %d undecided by the second solver, %d disagreements\n", crossAgree, crossUnknown, crossDisagree)
		crossStats = map[string]int{"confirmed_by_second_solver": crossAgree, "undecided_by_second_solver": crossUnknown, "disagreements": crossDisagree}
	}
	known := loadKnown()
	nObl, nDis, nViol := 0, 0, 0
	var violations []*OblResult
	var knownHit []string
	var undecidedSeen []string
	solverCount := map[string]int{}
	solverTime := 0.0
	for _, r := range results {
		solverTime += r.Seconds
		if r.obl.Expect == "sat?" {
			if r.Status == "unsat" {
				fmt.Printf("VACUOUS-PATH %s (%s): the assumptions on this path are contradictory; the obligation proves nothing\n", strings.TrimSuffix(r.Name, "#path"), r.Pos)
			}
			continue
		}
		if r.obl.Expect == "sat" {
			// vacuity guard
			if r.Status == "unsat" {
				violations = append(violations, r)
				nViol++
			}
			continue
		}
		if reason, und := cfg.Undecided[r.Name]; und {
			undecidedSeen = append(undecidedSeen, r.Name+": "+reason+" (now: "+r.Status+")")
			continue
		}
		nObl++
		if r.Status == "unsat" {
			nDis++
			solverCount[r.Solver]++
			continue
		}
		if kf := findKnown(known, id, r.Name); kf != nil && kf.Status == "known" {
			knownHit = append(knownHit, fmt.Sprintf("KNOWN-FINDING: property=%s %s: %s", id, r.Name, kf.What))
			nObl--
			continue
		}
		violations = append(violations, r)
		nViol++
	}
	// bounded stand-ins
	var boundedOut []map[string]any
	for _, b := range cfg.Bounded {
		ok, out := runBounded(b)
		boundedOut = append(boundedOut, map[string]any{"name": b.Name, "bound": b.Bound, "passed": ok})
		if !ok {
			if kf := findKnown(known, id, "bounded."+b.Name); kf != nil && kf.Status == "known" {
				knownHit = append(knownHit, fmt.Sprintf("KNOWN-FINDING: property=%s bounded.%s: %s", id, b.Name, kf.What))
				continue
			}
			nViol++
			rp := writeReplay(id, &OblResult{Name: "bounded." + b.Name, Kind: "bounded", Status: "failed", output: out, Desc: "bounded stand-in failed (bound: " + b.Bound + ")"}, nil, cfg)
			fmt.Printf("VIOLATION property=%s replay=%s obligation=bounded.%s\n", id, rp, b.Name)
		}
	}
	for _, k := range knownHit {
		fmt.Println(k)
	}
	exit := 0
	for _, be := range bindErrs {
		name := ShortKey(be[0]) + "#contract.binding"
		if kf := findKnown(known, id, name); kf != nil && kf.Status == "known" {
			fmt.Printf("KNOWN-FINDING: property=%s %s: %s\n", id, name, kf.What)
			continue
		}
		nViol++
		rp := writeReplay(id, &OblResult{Name: name, Kind: "binding", Status: "unbound", output: be[1],
			Desc: "the contract of this function cannot be bound to the current code, so its obligations cannot be generated and the property is not established: " + be[1]}, nil, cfg)
		fmt.Printf("VIOLATION property=%s replay=%s obligation=%s status=unbound no-failing-input-found\n", id, rp, name)
		fmt.Printf("  FAIL %s: %s\n", name, be[1])
		exit = 1
	}
	for _, r := range violations {
		model := parseGetValue(r.output)
		rp := writeReplay(id, r, model, cfg)
		tail := ""
		reproduced := false
		if r.Status == "sat" && len(model) > 0 {
			reproduced = tryReplay(id, rp, cfg, r)
		} else if r.Kind != "binding" && r.Kind != "cover" && r.obl != nil && harnessFor(ShortKey(r.obl.Fn)) != "" {
			// no solver witness (quantified context: unknown/timeout): the harness of the
			// function carries directed inputs of its own; run it against the real code
			reproduced = tryReplay(id, rp, cfg, r)
		}
		if !reproduced {
			tail = " no-failing-input-found"
		}
		fmt.Printf("VIOLATION property=%s replay=%s obligation=%s status=%s%s\n", id, rp, r.Name, r.Status, tail)
		exit = 1
	}
	if nViol > 0 {
		exit = 1
	}
	if cfg.MinObligation > 0 && nObl < cfg.MinObligation && *only == "" && *fn == "" && len(bindErrs) == 0 {
		fmt.Printf("ENGINE-ERROR: only %d obligations generated, expected at least %d (vacuity guard)\n", nObl, cfg.MinObligation)
		exit = 2
	}
	if nObl == 0 && *only == "" && *fn == "" {
		fmt.Println("ENGINE-ERROR: zero obligations generated")
		exit = 2
	}
	wall := time.Since(t0).Seconds()
	if *verbose || exit != 0 {
		for _, r := range results {
			mark := "ok  "
			if r.obl.Expect == "sat?" {
				continue
			}
			if r.obl.Expect == "sat" {
				if r.Status == "unsat" {
					mark = "VAC "
				} else {
					mark = "cov "
				}
			} else if r.Status != "unsat" {
				mark = "FAIL"
				if _, und := cfg.Undecided[r.Name]; und {
					mark = "und "
				}
			}
			if *verbose || mark == "FAIL" || mark == "VAC " {
				fmt.Printf("  %s %-72s %-8s %-7s %6.2fs %s  %s\n", mark, r.Name, r.Status, r.Solver, r.Seconds, r.Pos, r.Desc)
			}
		}
	}
	fmt.Printf("%s: %d obligations, %d discharged, %d violations, %d known, %d undecided-listed; %d functions; %.1fs\n",
		id, nObl, nDis, nViol, len(knownHit), len(undecidedSeen), len(funcsUnder), wall)
	if !*noEvidence && *only == "" && *fn == "" {
		writeEvidence(id, *tier, seed, cfg, results, funcsUnder, notes, used, DB, nObl, nDis, nViol, knownHit, undecidedSeen, solverCount, solverTime, wall, boundedOut)
	}
	if !*keep && exit == 0 {
		os.RemoveAll(work)
	}
	return exit
}

func uniq(xs []string) []string {
	var out []string
	for i, x := range xs {
		if i == 0 || x != xs[i-1] {
			out = append(out, x)
		}
	}
	return out
}

func loadKnown() []KnownFinding {
	var k []KnownFinding
	data, err := os.ReadFile(filepath.Join(verifDir(), "known_findings.json"))
	if err != nil {
		return nil
	}
	json.Unmarshal(data, &k)
	return k
}

func findKnown(ks []KnownFinding, id, obl string) *KnownFinding {
	for i := range ks {
		if ks[i].Property == id && ks[i].Obligation == obl {
			return &ks[i]
		}
	}
	return nil
}

func writeReplay(id string, r *OblResult, model map[string]string, cfg PropConfig) string {
	dir := filepath.Join(verifDir(), "replay", id)
	os.MkdirAll(dir, 0o755)
	path := filepath.Join(dir, safeFileName(r.Name)+".json")
	wit := map[string]string{}
	if r.obl != nil {
		for _, w := range r.obl.Witness {
			if v, ok := model[w.Term]; ok {
				wit[w.Label] = v
			}
		}
	}
	out := r.output
	if len(out) > 20000 {
		out = out[:20000] + "...(truncated)"
	}
	smtCopy := ""
	if r.file != "" {
		// keep the query next to the replay file
		smtCopy = strings.TrimSuffix(path, ".json") + ".smt2"
		if data, err := os.ReadFile(r.file); err == nil {
			os.WriteFile(smtCopy, data, 0o644)
		}
	}
	fn := ""
	if r.obl != nil {
		fn = ShortKey(r.obl.Fn)
	}
	doc := map[string]any{
		"property":      id,
		"obligation":    r.Name,
		"function":      fn,
		"kind":          r.Kind,
		"position":      r.Pos,
		"claim":         r.Desc,
		"solver_status": r.Status,
		"solver":        r.Solver,
		"tried":         r.Tried,
		"witness":       wit,
		"solver_output": out,
		"smt_file":      smtCopy,
	}
	data, _ := json.MarshalIndent(doc, "", " ")
	os.WriteFile(path, data, 0o644)
	return path
}

var crossStats map[string]int

func writeEvidence(id, tier string, seed int, cfg PropConfig, results []*OblResult, funcs, notes []string, used map[string]string, DB *ContractDB,
	nObl, nDis, nViol int, knownHit, undecided []string, solverCount map[string]int, solverTime, wall float64, bounded []map[string]any) {
	var samples []any
	kinds := map[string]int{}
	for _, r := range results {
		kinds[r.Kind]++
	}
	// a few obligations of each kind as samples
	perKind := map[string]int{}
	for _, r := range results {
		if perKind[r.Kind] < 3 {
			perKind[r.Kind]++
			samples = append(samples, map[string]any{"obligation": r.Name, "claim": r.Desc, "pos": r.Pos, "status": r.Status, "solver": r.Solver, "seconds": round3(r.Seconds), "smt_bytes": r.Bytes})
		}
	}
	var trusted []string
	var externs []string
	for k, c := range DB.Funcs {
		if c.Extern && c.UsedExtern {
			externs = append(externs, ShortKey(k))
		}
	}
	sort.Strings(externs)
	for _, x := range externs {
		trusted = append(trusted, "extern contract (assumed, body not verified): "+x)
	}
	trusted = append(trusted,
		"govc itself: go/packages + go/ssa (x/tools v0.29.0) translation and the VC generator in /verif/govc",
		"SMT solvers z3 4.8.12, z3 5.1.0 (z3-new), cvc5 1.0.3: an 'unsat' answer from any one is accepted",
		"frame assumption F1: a callee without contract writes only heap roots type-reachable from its arguments (never through globals); listed pure library functions write nothing",
		"heap model: typed (Burstall) memory, no unsafe aliasing between different element types; interior pointers tracked statically",
		"floating point: uninterpreted operations (sound, imprecise); machine integers: exact wrap-around semantics on SMT Int",
		"panics are obligations, not control flow; goroutines spawned by a function are verified separately",
	)
	trusted = append(trusted, cfg.Assumptions...)
	sort.Strings(notes)
	var oblList []any
	for _, r := range results {
		oblList = append(oblList, map[string]any{"name": r.Name, "status": r.Status, "solver": r.Solver, "seconds": round3(r.Seconds)})
	}
	level := cfg.Level
	if level == "" {
		level = "proof"
	}
	cov := map[string]any{
		"cross_check_thorough":  crossStats,
		"obligations":           nObl,
		"discharged":            nDis,
		"checker_cmd":           fmt.Sprintf("/verif/check %s --tier %s", id, tier),
		"trusted_base":          trusted,
		"explanation":           cfg.Explanation,
		"functions_under_contract": funcs,
		"obligation_kinds":      kinds,
		"by_solver":             solverCount,
		"solver_seconds":        round3(solverTime),
		"samples":               samples,
		"all_obligations":       oblList,
		"known_findings_hit":    knownHit,
		"undecided_not_claimed": undecided,
		"not_decided":           cfg.NotDecided,
		"abstraction_notes":     notes,
		"contract_sources":      used,
		"bounded":               bounded,
	}
	if af, missing, total := anchorFunctionsNotUnderContract(id, funcs); len(af) > 0 {
		cov["anchor_files"] = af
		cov["anchor_functions_total"] = total
		cov["anchor_functions_not_under_contract"] = missing
	}
	ev := map[string]any{
		"property_id": id,
		"tier":        tier,
		"seed":        seed,
		"level":       level,
		"coverage":    cov,
		"assumptions": trusted,
		"wall_s":      round3(wall),
		"violations":  nViol,
	}
	os.MkdirAll(filepath.Join(verifDir(), "evidence"), 0o755)
	data, _ := json.MarshalIndent(ev, "", " ")
	os.WriteFile(filepath.Join(verifDir(), "evidence", id+".json"), data, 0o644)
}

func round3(f float64) float64 { return float64(int(f*1000+0.5)) / 1000 }

// ---------- witness terms ----------

func (e *Enc) witnessTerms() []WitnessTerm {
	var out []WitnessTerm
	add := func(label, term string) { out = append(out, WitnessTerm{label, term}) }
	var walk func(label string, v *Val, depth int)
	walk = func(label string, v *Val, depth int) {
		if v.T == nil {
			return
		}
		switch u := v.T.Underlying().(type) {
		case *types.Basic:
			if isString(v.T) {
				add(label+".len", "(slen "+v.L[0]+")")
				for i := 0; i < 24; i++ {
					add(fmt.Sprintf("%s[%d]", label, i), fmt.Sprintf("(sat %s %d)", v.L[0], i))
				}
			} else if len(v.L) == 1 {
				add(label, v.L[0])
			}
		case *types.Slice:
			add(label+".len", v.L[slLen])
			add(label+".cap", v.L[slCap])
			add(label+".ref", v.L[slRef])
			if depth < 2 {
				for i := 0; i < 8; i++ {
					p := &Val{T: types.NewPointer(u.Elem()), L: []string{v.L[slRef], e.simpAdd(v.L[slOff], fmt.Sprint(i))}, Root: u.Elem()}
					ev := e.loadSpec(&specCtx{st: e.entry, old: e.entry}, p, u.Elem())
					walk(fmt.Sprintf("%s[%d]", label, i), ev, depth+1)
				}
			}
		case *types.Pointer:
			add(label+".ref", v.L[0])
			if depth < 2 {
				if _, ok := u.Elem().Underlying().(*types.Struct); ok && len(v.Path) == 0 {
					ev := e.loadSpec(&specCtx{st: e.entry, old: e.entry}, e.annotate(v), u.Elem())
					walk("(*"+label+")", ev, depth+1)
				}
			}
		case *types.Struct:
			for i := 0; i < u.NumFields(); i++ {
				if u.NumFields() > 24 && depth > 0 {
					break
				}
				walk(label+"."+u.Field(i).Name(), e.fieldOf(v, i), depth+1)
			}
		default:
			if len(v.L) == 1 {
				add(label, v.L[0])
			}
		}
	}
	for _, p := range e.fn.Params {
		walk(p.Name(), e.vals[p], 0)
	}
	if len(out) > 400 {
		out = out[:400]
	}
	out = append(out, e.retWit...)
	return out
}

func cmdNames(args []string) int {
	return 0
}
