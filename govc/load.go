package main

import (
	"fmt"
	"go/ast"
	"go/token"
	"go/types"
	"os"
	"sort"
	"strings"

	"golang.org/x/tools/go/packages"
	"golang.org/x/tools/go/ssa"
	"golang.org/x/tools/go/ssa/ssautil"
)

// Program is the loaded view of /repo's current working tree: the packages under
// check with syntax, types and go/ssa bodies. Dependencies come from export data
// (no bodies): calls into them are modular (contract or havoc).
type Program struct {
	Fset  *token.FileSet
	Pkgs  map[string]*packages.Package // by import path
	SSA   map[string]*ssa.Package
	Prog  *ssa.Program
	Funcs map[string]*ssa.Function // "pkgpath.Name" / "pkgpath.(*T).M" / closures "...$1"
}

const modulePath = "github.com/ollama/ollama"

func repoDir() string {
	if d := os.Getenv("GOVC_REPO"); d != "" {
		return d
	}
	return "/repo"
}

// LoadProgram loads the given package patterns (relative to the repo, e.g. "./llm").
func LoadProgram(patterns []string) (*Program, error) {
	cfg := &packages.Config{
		Mode: packages.NeedName | packages.NeedFiles | packages.NeedCompiledGoFiles |
			packages.NeedImports | packages.NeedTypes | packages.NeedTypesSizes |
			packages.NeedSyntax | packages.NeedTypesInfo,
		Dir:   repoDir(),
		Fset:  token.NewFileSet(),
		Tests: false,
		Env:   append(os.Environ(), "GOFLAGS=-mod=mod", "GOPROXY=off"),
	}
	pkgs, err := packages.Load(cfg, patterns...)
	if err != nil {
		return nil, err
	}
	var errs []string
	for _, p := range pkgs {
		for _, e := range p.Errors {
			errs = append(errs, e.Error())
		}
	}
	if len(errs) > 0 {
		return nil, fmt.Errorf("load errors:\n%s", strings.Join(errs, "\n"))
	}
	prog, spkgs := ssautil.Packages(pkgs, ssa.GlobalDebug|ssa.InstantiateGenerics)
	P := &Program{Fset: cfg.Fset, Pkgs: map[string]*packages.Package{}, SSA: map[string]*ssa.Package{}, Prog: prog, Funcs: map[string]*ssa.Function{}}
	for i, p := range pkgs {
		if spkgs[i] == nil {
			return nil, fmt.Errorf("no ssa for %s", p.PkgPath)
		}
		spkgs[i].Build()
		P.Pkgs[p.PkgPath] = p
		P.SSA[p.PkgPath] = spkgs[i]
	}
	for _, sp := range P.SSA {
		P.indexPackage(sp)
	}
	return P, nil
}

func (P *Program) indexPackage(sp *ssa.Package) {
	var add func(f *ssa.Function)
	add = func(f *ssa.Function) {
		if f == nil {
			return
		}
		P.Funcs[FuncKey(f)] = f
		for _, a := range f.AnonFuncs {
			add(a)
		}
	}
	for _, m := range sp.Members {
		switch m := m.(type) {
		case *ssa.Function:
			add(m)
		case *ssa.Type:
			t := m.Type()
			for _, tt := range []types.Type{t, types.NewPointer(t)} {
				ms := P.Prog.MethodSets.MethodSet(tt)
				for i := 0; i < ms.Len(); i++ {
					fn := P.Prog.MethodValue(ms.At(i))
					if fn != nil && fn.Pkg == sp && fn.Synthetic == "" {
						add(fn)
					}
				}
			}
		}
	}
}

// FuncKey gives the stable name used in contracts and obligation names:
//
//	pkgpath.Func, pkgpath.(*T).Method, pkgpath.(T).Method, closures Parent$N.
func FuncKey(f *ssa.Function) string {
	if f.Parent() != nil {
		// closure: name is like "Outer$1"
		return FuncKey(f.Parent()) + f.Name()[strings.LastIndex(f.Name(), "$"):]
	}
	pkg := ""
	if f.Pkg != nil {
		pkg = f.Pkg.Pkg.Path()
	} else if f.Object() != nil && f.Object().Pkg() != nil {
		pkg = f.Object().Pkg().Path()
	}
	if recv := f.Signature.Recv(); recv != nil {
		t := recv.Type()
		ptr := false
		if p, ok := t.(*types.Pointer); ok {
			t = p.Elem()
			ptr = true
		}
		tn := typeShort(t)
		if ptr {
			return pkg + ".(*" + tn + ")." + f.Name()
		}
		return pkg + ".(" + tn + ")." + f.Name()
	}
	return pkg + "." + f.Name()
}

func typeShort(t types.Type) string {
	switch t := t.(type) {
	case *types.Named:
		s := t.Obj().Name()
		if ta := t.TypeArgs(); ta != nil && ta.Len() > 0 {
			var a []string
			for i := 0; i < ta.Len(); i++ {
				a = append(a, types.TypeString(ta.At(i), func(p *types.Package) string { return p.Name() }))
			}
			s += "[" + strings.Join(a, ",") + "]"
		}
		return s
	case *types.Alias:
		return typeShort(types.Unalias(t))
	}
	return types.TypeString(t, func(p *types.Package) string { return p.Name() })
}

// ShortKey strips the module path: github.com/ollama/ollama/llm.X -> llm.X
func ShortKey(k string) string {
	return strings.TrimPrefix(k, modulePath+"/")
}

func (P *Program) FindFunc(name string) *ssa.Function {
	if f, ok := P.Funcs[name]; ok {
		return f
	}
	if f, ok := P.Funcs[modulePath+"/"+name]; ok {
		return f
	}
	return nil
}

// funcSyntax returns the ast node of a function (FuncDecl or FuncLit).
func funcSyntax(f *ssa.Function) ast.Node { return f.Syntax() }

// loopStmtsInSource lists for/range statements lexically inside the function body,
// excluding nested function literals, in source order.
func loopStmtsInSource(f *ssa.Function) []ast.Node {
	n := funcSyntax(f)
	if n == nil {
		return nil
	}
	var body *ast.BlockStmt
	switch n := n.(type) {
	case *ast.FuncDecl:
		body = n.Body
	case *ast.FuncLit:
		body = n.Body
	}
	if body == nil {
		return nil
	}
	var out []ast.Node
	ast.Inspect(body, func(x ast.Node) bool {
		switch x.(type) {
		case *ast.FuncLit:
			return false
		case *ast.ForStmt, *ast.RangeStmt:
			out = append(out, x)
		}
		return true
	})
	sort.Slice(out, func(i, j int) bool { return out[i].Pos() < out[j].Pos() })
	return out
}
