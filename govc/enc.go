package main

import (
	"fmt"
	"go/token"
	"go/types"
	"sort"
	"strings"
	"sync"

	"golang.org/x/tools/go/ssa"
)

// Obligation is one verification condition: Assumptions[:Prefix] ∧ Goal must be
// unsatisfiable (Goal = path condition ∧ ¬claim).
type Obligation struct {
	Name    string
	Fn      string
	Kind    string
	Pos     string
	Desc    string
	Prefix  int
	Goal    string
	PC      string // path condition under which the claim is checked (Goal = PC and not claim)
	Expect  string // "unsat" normally; "sat" for cover/vacuity queries
	Witness []WitnessTerm
	enc     *Enc
}

type WitnessTerm struct {
	Label string
	Term  string
}

// State is the symbolic store that is not in SSA form: the heap (one SMT array per
// (root type, leaf path)), the allocation counter, and ghost state.
type State struct {
	heap      map[string]string
	epoch     int
	rootEpoch map[string]int
	alloc     string
	ghost     map[string]string
	ver       map[string]string // per heap root: version token, changes on every write
	gver      string            // global version token
}

func (s *State) clone() *State {
	n := &State{heap: make(map[string]string, len(s.heap)), epoch: s.epoch, rootEpoch: map[string]int{}, alloc: s.alloc, ghost: map[string]string{}, ver: map[string]string{}, gver: s.gver}
	for k, v := range s.ver {
		n.ver[k] = v
	}
	for k, v := range s.heap {
		n.heap[k] = v
	}
	for k, v := range s.rootEpoch {
		n.rootEpoch[k] = v
	}
	for k, v := range s.ghost {
		n.ghost[k] = v
	}
	return n
}

type heapKey struct {
	Key  string
	Root string
	Sort string // full array sort
	Leaf Leaf
}

type loopInfo struct {
	Header  *ssa.BasicBlock
	Ord     int // 1-based source ordinal
	Body    map[*ssa.BasicBlock]bool
	Backs   []*ssa.BasicBlock
	Entries []*ssa.BasicBlock
	// values at header for `decreases`
	decAtHead string
	preState  *State
}

type closureInfo struct {
	Fn       *ssa.Function
	Bindings []*Val
}

type envEntry struct {
	V      *Val // value, or pointer when IsAddr
	IsAddr bool
}

type Enc struct {
	P    *Program
	DB   *ContractDB
	fn   *ssa.Function
	key  string
	ctr  *Contract
	opts EncOpts

	decls        []string
	declSet      map[string]bool
	asserts      []string
	obls         []*Obligation
	vals         map[ssa.Value]*Val
	pc           map[*ssa.BasicBlock]string
	in           map[*ssa.BasicBlock]*State
	out          map[*ssa.BasicBlock]*State
	edgeCond     map[[2]int]string // [from block index, succ slot]
	nfresh       int
	nepoch       int
	nver         int
	notes        []string
	noteSet      map[string]bool
	ords         map[string]int
	loops        map[*ssa.BasicBlock]*loopInfo
	entry        *State
	hkeys        map[string]*heapKey
	lits         map[string]string // string literal -> const name
	litOrder     []string
	tags         map[string]int
	nonEsc       map[ssa.Value]bool
	allocd       []ssa.Value // executed allocation sites (in order)
	specDecl     map[string]bool
	sumTerms     []sumTerm // slices whose sum(..) occurs in a specification evaluated so far
	retVals      []retPoint
	callOrd      map[string]int
	curBlock     *ssa.BasicBlock
	curState     *State
	curInstr     ssa.Instruction
	useStr       bool
	boxDecl      map[string]bool
	iterInfo     map[ssa.Value]*iterState
	disabledAuto map[string]bool
	retWit       []WitnessTerm
	frameNilOK   bool
	curDeferred  bool
	stableFV     map[*ssa.FreeVar]*Val
	allocVal     map[*ssa.Alloc]*Val
	allocRefs    map[string]bool
	chanRoom     map[string]int
	published    map[string]bool
	stableAlloc  map[*ssa.Alloc]bool
	liveIn       map[*ssa.BasicBlock][]string
	ainfo        []assertInfo
	isConstDecl  map[string]bool
	sliceMu      sync.Mutex
	irowTags     map[string]int
	irowSeen     map[string]bool
	domDepth     map[*ssa.BasicBlock]int
	failed       error
}

type retPoint struct {
	block *ssa.BasicBlock
	pc    string
	vals  []*Val
	state *State
	pos   token.Pos
}

type iterState struct {
	X     *Val
	IsStr bool
	IsMap bool
	Key   string // ghost key holding next index
	Vis   string // map ranges: ghost key of the set of keys produced so far ("" = not tracked)
	Had   string // map ranges: ghost key of the key set when the range statement started
}

// ghostSort: SMT sort of a ghost-state entry, by key prefix.
func ghostSort(k string) string {
	switch {
	case strings.HasPrefix(k, "held:"), strings.HasPrefix(k, "b:"):
		return "Bool"
	case strings.HasPrefix(k, "vis:"), strings.HasPrefix(k, "had:"):
		return "(Array Int Bool)"
	}
	return "Int"
}

type EncOpts struct {
	Safe map[string]bool
}

func defaultSafe() map[string]bool {
	return map[string]bool{"index": true, "slice": true, "div": true, "typeassert": true, "panic": true, "makeslice": true, "shift": true, "nilmap": true}
}

func NewEnc(P *Program, DB *ContractDB, fn *ssa.Function) *Enc {
	e := &Enc{P: P, DB: DB, fn: fn, key: FuncKey(fn)}
	e.ctr = DB.Funcs[e.key]
	e.declSet = map[string]bool{}
	e.vals = map[ssa.Value]*Val{}
	e.pc = map[*ssa.BasicBlock]string{}
	e.in = map[*ssa.BasicBlock]*State{}
	e.out = map[*ssa.BasicBlock]*State{}
	e.edgeCond = map[[2]int]string{}
	e.noteSet = map[string]bool{}
	e.ords = map[string]int{}
	e.loops = map[*ssa.BasicBlock]*loopInfo{}
	e.hkeys = map[string]*heapKey{}
	e.lits = map[string]string{}
	e.tags = map[string]int{}
	e.specDecl = map[string]bool{}
	e.callOrd = map[string]int{}
	e.boxDecl = map[string]bool{}
	e.iterInfo = map[ssa.Value]*iterState{}
	e.opts.Safe = defaultSafe()
	if e.ctr != nil {
		if s, ok := e.ctr.Opts["safe"]; ok {
			e.opts.Safe = map[string]bool{}
			for _, k := range strings.FieldsFunc(s, func(r rune) bool { return r == ',' || r == ' ' }) {
				if k == "all" {
					for kk := range defaultSafe() {
						e.opts.Safe[kk] = true
					}
					e.opts.Safe["nil"] = true
				} else if k != "none" {
					e.opts.Safe[k] = true
				}
			}
		}
		if s, ok := e.ctr.Opts["safe+"]; ok {
			for _, k := range strings.FieldsFunc(s, func(r rune) bool { return r == ',' || r == ' ' }) {
				e.opts.Safe[k] = true
			}
		}
		if s, ok := e.ctr.Opts["safe-"]; ok {
			for _, k := range strings.FieldsFunc(s, func(r rune) bool { return r == ',' || r == ' ' }) {
				delete(e.opts.Safe, k)
			}
		}
	}
	return e
}

func (e *Enc) note(f string, a ...any) {
	s := fmt.Sprintf(f, a...)
	if !e.noteSet[s] {
		e.noteSet[s] = true
		e.notes = append(e.notes, s)
	}
}

func (e *Enc) freshName(prefix string) string {
	e.nfresh++
	return fmt.Sprintf("%s!%d", prefix, e.nfresh)
}

func (e *Enc) declare(name, sort string) string {
	if !e.declSet[name] {
		e.declSet[name] = true
		if e.isConstDecl == nil {
			e.isConstDecl = map[string]bool{}
		}
		e.isConstDecl[name] = true
		e.decls = append(e.decls, "(declare-const "+name+" "+sort+")")
	}
	return name
}

func (e *Enc) declareFun(name string, args []string, ret string) {
	if !e.declSet[name] {
		e.declSet[name] = true
		e.decls = append(e.decls, "(declare-fun "+name+" ("+strings.Join(args, " ")+") "+ret+")")
	}
}

func (e *Enc) assume(f string) {
	if f == "true" || f == "" {
		return
	}
	e.asserts = append(e.asserts, f)
}

// assumeAt adds an assumption that holds when control is at the current point.
func (e *Enc) assumeHere(f string) {
	if f == "true" || f == "" {
		return
	}
	e.assume(sImp(e.pc[e.curBlock], f))
}

// define introduces a named constant equal to term (keeps formulas DAG-shaped).
func (e *Enc) define(prefix, sort, term string) string {
	// avoid renaming atoms
	if !strings.ContainsAny(term, " (") {
		return term
	}
	n := e.declare(e.freshName(prefix), sort)
	e.assume("(= " + n + " " + term + ")")
	return n
}

func (e *Enc) pos(p token.Pos) string {
	if !p.IsValid() {
		return ""
	}
	pp := e.P.Fset.Position(p)
	return fmt.Sprintf("%s:%d", strings.TrimPrefix(pp.Filename, repoDir()+"/"), pp.Line)
}

func (e *Enc) oblige(kind string, named string, claim string, pos token.Pos, desc string) *Obligation {
	pc := "true"
	if e.curBlock != nil {
		pc = e.pc[e.curBlock]
	}
	o := e.obligeAt(pc, kind, named, claim, pos, desc)
	// assert-then-assume: execution continues past this point only if the claim
	// held (a failed check panics), so later obligations are not cascades of it.
	if e.curBlock != nil && (strings.HasPrefix(kind, "safe.") || kind == "pre" || kind == "assert") {
		e.assumeHere(claim)
	}
	return o
}

// splitEdges: when the current block joins several paths, heavy (quantified)
// obligations are split per incoming edge; under "edge i was taken" the merged
// heap arrays collapse to one path's arrays, which solvers handle far better.
func (e *Enc) obligeSplit(pc, kind, named, claim string, pos token.Pos, desc string, at *ssa.BasicBlock) {
	edges := e.liveIn[at]
	if len(edges) < 2 || len(edges) > 6 {
		e.obligeAt(pc, kind, named, claim, pos, desc)
		return
	}
	for i, ed := range edges {
		e.obligeAt(sAnd(ed, pc), kind, fmt.Sprintf("%s/in%d", named, i+1), claim, pos, desc)
	}
}

func (e *Enc) obligeAt(pc, kind, named, claim string, pos token.Pos, desc string) *Obligation {
	name := named
	if name == "" {
		e.ords[kind]++
		name = fmt.Sprintf("%s.%d", kind, e.ords[kind])
	}
	o := &Obligation{
		Name: ShortKey(e.key) + "#" + name, Fn: e.key, Kind: kind, Pos: e.pos(pos), Desc: desc,
		Prefix: len(e.asserts), Goal: sAnd(pc, sNot(claim)), PC: pc, Expect: "unsat", enc: e,
	}
	e.obls = append(e.obls, o)
	return o
}

// ---------- heap ----------

func (e *Enc) newEpoch() int { e.nepoch++; return e.nepoch }

// rootOfHeapKey: the heap root (element type key) a heap component belongs to. Type keys
// contain '/' themselves (package paths), so the registered key is authoritative.
func (e *Enc) rootOfHeapKey(key string) string {
	if hk, ok := e.hkeys[key]; ok {
		return hk.Root
	}
	return rootOfKey(key)
}

func rootOfKey(key string) string {
	if i := strings.Index(key, "/"); i >= 0 {
		return key[:i]
	}
	return key
}

func (e *Enc) hkey(root types.Type, pathKey string, leaf Leaf, extraDims int) *heapKey {
	k := typeKey(root) + pathKey
	if hk, ok := e.hkeys[k]; ok {
		return hk
	}
	hk := &heapKey{Key: k, Root: typeKey(root), Leaf: leaf, Sort: arraySort(leaf.Sort, 2+extraDims)}
	e.hkeys[k] = hk
	return hk
}

func (e *Enc) heapGet(st *State, hk *heapKey) string {
	if t, ok := st.heap[hk.Key]; ok {
		return t
	}
	ep := st.epoch
	if re, ok := st.rootEpoch[hk.Root]; ok {
		ep = re
	}
	name := smtIdent(fmt.Sprintf("H%d:%s", ep, hk.Key))
	if !e.declSet[name] && ep == 0 && hk.Sort == "(Array Int (Array Int Int))" && isRefLeaf(hk.Leaf) {
		// references stored in the entry heap denote objects that existed at entry
		e.declare(name, hk.Sort)
		// (cells of objects allocated later are unconstrained: an extern contract may say
		// that a fresh object's fields are fresh too)
		e.assume("(forall ((r Int) (i Int)) (! (=> (<= r alloc0) (<= (select (select " + name + " r) i) alloc0)) :pattern ((select (select " + name + " r) i))))")
	}
	e.declare(name, hk.Sort)
	st.heap[hk.Key] = name
	return name
}

// isRefLeaf: the leaf holds an object reference (pointer/slice ref component, map,
// chan, func).
func isRefLeaf(lf Leaf) bool {
	if lf.T == nil || lf.Dims != 0 {
		return false
	}
	switch lf.T.Underlying().(type) {
	case *types.Pointer, *types.Slice:
		return len(lf.Path) > 0 && lf.Path[len(lf.Path)-1] == 1000
	case *types.Map, *types.Chan, *types.Signature:
		return true
	}
	return false
}

func (e *Enc) heapSet(st *State, hk *heapKey, term string) {
	st.heap[hk.Key] = e.define("h", hk.Sort, term)
	e.bumpVer(st, hk.Root)
}

// bumpVer records that heap root was written (version tokens feed pure functions).
func (e *Enc) bumpVer(st *State, root string) {
	if st.ver == nil {
		st.ver = map[string]string{}
	}
	e.nver++
	st.ver[root] = fmt.Sprintf("%d", e.nver)
	st.gver = fmt.Sprintf("%d", e.nver)
}

func (e *Enc) bumpAllVer(st *State) {
	e.nver++
	st.ver = map[string]string{"*": fmt.Sprintf("%d", e.nver)}
	st.gver = fmt.Sprintf("%d", e.nver)
}

// verToken returns the version of a heap root in a state.
func (e *Enc) verToken(st *State, root string) string {
	if st.ver != nil {
		if v, ok := st.ver[root]; ok {
			return v
		}
		if v, ok := st.ver["*"]; ok {
			return v
		}
	}
	return "0"
}

// locAccess describes how to reach one scalar leaf of a pointed-to value.
type locAccess struct {
	HK   *heapKey
	Idx  []string // ref, idx, then inner index terms
	Leaf Leaf     // leaf within the pointee type (Dims = remaining array dims of the value)
}

// accesses enumerates the heap accesses for the value of type T at pointer p.
// Arrays embedded in structs live in their own element rows, addressed by the
// injective function irow(tag, ref, idx) (always negative, so distinct from
// allocated references).
func (e *Enc) accesses(p *Val, T types.Type) []locAccess {
	root := p.Root
	if root == nil {
		return nil
	}
	var pk strings.Builder
	idx := []string{p.L[0], p.L[1]}
	var prefix []int
	for _, s := range p.Path {
		if s.Field < 0 {
			e.fail("internal: index step in pointer path")
		}
		fmt.Fprintf(&pk, "/%d", s.Field)
		prefix = append(prefix, s.Field)
	}
	var out []locAccess
	for _, lf := range typeLeaves(T) {
		if lf.Dims == 0 {
			hk := e.hkey(root, pk.String()+lf.PathKey(), lf, 0)
			out = append(out, locAccess{HK: hk, Idx: idx, Leaf: lf})
			continue
		}
		// split at the first array step
		k := 0
		for k < len(lf.Path) && lf.Path[k] >= 0 {
			k++
		}
		rest := lf.Path[k+1:]
		nested := false
		for _, r := range rest {
			if r < 0 {
				nested = true
			}
		}
		elemT := typeAtPath(T, lf.Path[:k+1])
		if nested || elemT == nil {
			e.note("nested arrays inside %v: content not tracked", T)
			hk := e.hkeyNamed(types.Typ[types.UnsafePointer], "/untracked:"+typeKey(root)+pk.String()+lf.PathKey(), arraySort(lf.Sort, lf.Dims))
			out = append(out, locAccess{HK: hk, Idx: idx, Leaf: lf})
			continue
		}
		var tag strings.Builder
		tag.WriteString(typeKey(root) + pk.String())
		for _, f := range lf.Path[:k] {
			fmt.Fprintf(&tag, "/%d", f)
		}
		row := e.irow(tag.String(), p.L[0], p.L[1])
		sub := Leaf{Path: rest, Sort: lf.Sort, T: lf.T}
		hk := e.hkey(elemT, sub.PathKey(), sub, 0)
		out = append(out, locAccess{HK: hk, Idx: []string{row}, Leaf: lf})
	}
	return out
}

// pointeeIsRow reports whether p (pointer to array type) designates a standalone
// row of elements (Root = element type, empty path) rather than an embedded array.
func pointeeIsRow(p *Val, arr *types.Array) bool {
	return len(p.Path) == 0 && p.Root != nil && types.Identical(p.Root, arr.Elem())
}

// typeAtPath follows field indices / array steps (-1) from T; returns the type reached.
func typeAtPath(T types.Type, path []int) types.Type {
	cur := T
	for _, s := range path {
		switch u := cur.Underlying().(type) {
		case *types.Struct:
			if s < 0 || s >= u.NumFields() {
				return nil
			}
			cur = u.Field(s).Type()
		case *types.Array:
			if s != -1 {
				return nil
			}
			cur = u.Elem()
		case *types.Tuple:
			if s < 0 || s >= u.Len() {
				return nil
			}
			cur = u.At(s).Type()
		default:
			return nil
		}
	}
	return cur
}

// irow names the element row of an array embedded at (tag) inside object (ref, idx).
func (e *Enc) irow(tag, ref, idx string) string {
	tg, ok := e.irowTags[tag]
	if !ok {
		if e.irowTags == nil {
			e.irowTags = map[string]int{}
		}
		tg = len(e.irowTags) + 1
		e.irowTags[tag] = tg
	}
	t := fmt.Sprintf("(irow %d %s %s)", tg, ref, idx)
	if !e.irowSeen[t] && !strings.HasPrefix(ref, "?") {
		if e.irowSeen == nil {
			e.irowSeen = map[string]bool{}
		}
		e.irowSeen[t] = true
		e.assume(fmt.Sprintf("(and (< %s 0) (= (irow_tag %s) %d) (= (irow_ref %s) %s) (= (irow_idx %s) %s))", t, t, tg, t, ref, t, idx))
	}
	return t
}

// rowPtr converts a pointer to an array (standalone row or embedded array) into the
// (row, offset) pair addressing its elements.
func (e *Enc) rowPtr(p *Val, arr *types.Array) *Val {
	if pointeeIsRow(p, arr) {
		return p
	}
	var tag strings.Builder
	tag.WriteString(typeKey(p.Root))
	for _, s := range p.Path {
		fmt.Fprintf(&tag, "/%d", s.Field)
	}
	return &Val{T: p.T, L: []string{e.irow(tag.String(), p.L[0], p.L[1]), "0"}, Root: arr.Elem()}
}

func (e *Enc) load(st *State, p *Val, T types.Type) *Val {
	if arr, ok := T.Underlying().(*types.Array); ok {
		p = e.rowPtr(p, arr)
		// whole-array load from a row: value leaves are the row itself (assumes idx 0)
		elemPtr := &Val{T: types.NewPointer(arr.Elem()), L: p.L, Root: p.Root}
		v := &Val{T: T}
		for _, a := range e.accesses(elemPtr, arr.Elem()) {
			v.L = append(v.L, sSel(e.heapGet(st, a.HK), a.Idx[0]))
		}
		return v
	}
	v := &Val{T: T}
	acc := e.accesses(p, T)
	if acc == nil {
		return e.freshVal("ld", T, true)
	}
	for _, a := range acc {
		t := sSel(e.heapGet(st, a.HK), a.Idx...)
		v.L = append(v.L, t)
	}
	e.annotate(v)
	e.assumeTypeInv(st, v, true)
	return v
}

func (e *Enc) store(st *State, p *Val, T types.Type, v *Val) {
	if arr, ok := T.Underlying().(*types.Array); ok {
		p = e.rowPtr(p, arr)
		elemPtr := &Val{T: types.NewPointer(arr.Elem()), L: p.L, Root: p.Root}
		for i, a := range e.accesses(elemPtr, arr.Elem()) {
			e.heapSet(st, a.HK, "(store "+e.heapGet(st, a.HK)+" "+a.Idx[0]+" "+v.L[i]+")")
		}
		return
	}
	acc := e.accesses(p, T)
	if acc == nil {
		e.note("store through untyped pointer dropped (unsound)")
		return
	}
	for i, a := range acc {
		before := e.heapGet(st, a.HK)
		e.heapSet(st, a.HK, sStore(before, a.Idx, v.L[i]))
		// ground update facts for the sums mentioned in specifications (sum(xs)): one
		// element of a row changed, every registered view of a row of this heap
		// component changes by the difference (or not at all)
		if len(a.Idx) == 2 {
			for _, t := range e.sumTerms {
				if t.key != a.HK.Key {
					continue
				}
				after := e.heapGet(st, a.HK)
				oldRow, newRow := sSel(before, t.ref), sSel(after, t.ref)
				inRange := sAnd(sEq(t.ref, a.Idx[0]), "(<= "+t.off+" "+a.Idx[1]+")", "(< "+a.Idx[1]+" (+ "+t.off+" "+t.ln+"))")
				e.assume("(= (ssum " + newRow + " " + t.off + " " + t.ln + ") (ite " + inRange + " (+ (- (ssum " + oldRow + " " + t.off + " " + t.ln + ") (select " + oldRow + " " + a.Idx[1] + ")) " + v.L[i] + ") (ssum " + oldRow + " " + t.off + " " + t.ln + ")))")
			}
		}
	}
}

type sumTerm struct{ key, ref, off, ln string }

// annotate fills pointer meta-data (Root) from the static type.
func (e *Enc) annotate(v *Val) *Val {
	if v.T == nil {
		return v
	}
	if pt, ok := v.T.Underlying().(*types.Pointer); ok && v.Root == nil {
		v.Root = ptrRoot(pt.Elem())
	}
	return v
}

func ptrRoot(elem types.Type) types.Type {
	if a, ok := elem.Underlying().(*types.Array); ok {
		return a.Elem()
	}
	return elem
}

// ---------- fresh values, zero values, type invariants ----------

func (e *Enc) freshVal(prefix string, T types.Type, assumeInv bool) *Val {
	v := &Val{T: T}
	for _, lf := range typeLeaves(T) {
		n := e.declare(e.freshName(prefix), arraySort(lf.Sort, lf.Dims))
		v.L = append(v.L, n)
	}
	e.annotate(v)
	if assumeInv {
		e.assumeTypeInv(e.curState, v, false)
	}
	return v
}

func zeroOfSort(sort string) string {
	switch sort {
	case "Int":
		return "0"
	case "Bool":
		return "false"
	case "F":
		return "fzero"
	}
	if strings.HasPrefix(sort, "(Array Int ") {
		inner := sort[len("(Array Int ") : len(sort)-1]
		return "((as const " + sort + ") " + zeroOfSort(inner) + ")"
	}
	return "0"
}

func (e *Enc) zeroVal(T types.Type) *Val {
	v := &Val{T: T}
	for _, lf := range typeLeaves(T) {
		v.L = append(v.L, zeroOfSort(arraySort(lf.Sort, lf.Dims)))
	}
	e.annotate(v)
	return v
}

// typeInvFormula gives the facts every well-formed Go value of its type satisfies
// (integer ranges, slice shape, non-negative string length, references not beyond
// the allocation counter).
func (e *Enc) typeInvFormula(st *State, v *Val) string {
	if v.T == nil {
		return "true"
	}
	var fs []string
	leaves := typeLeaves(v.T)
	for i, lf := range leaves {
		if lf.Dims > 0 {
			continue
		}
		t := v.L[i]
		switch u := lf.T.Underlying().(type) {
		case *types.Basic:
			if u.Info()&types.IsInteger != 0 {
				fs = append(fs, intRangeFormula(t, lf.T))
			} else if u.Info()&types.IsString != 0 {
				e.useStr = true
				fs = append(fs, "(>= (slen "+t+") 0)", "(<= (slen "+t+") 4611686018427387904)")
			}
		case *types.Pointer:
			sub := lf.Path[len(lf.Path)-1]
			if sub == 1000 {
				if st != nil {
					fs = append(fs, "(<= "+t+" "+st.alloc+")")
				}
			}
		case *types.Slice:
			sub := lf.Path[len(lf.Path)-1]
			if sub == 1000 {
				ref, off, ln, cp := v.L[i], v.L[i+1], v.L[i+2], v.L[i+3]
				_ = off
				fs = append(fs, "(>= "+ln+" 0)", "(<= "+ln+" "+cp+")",
					"(=> (= "+ref+" 0) (= "+cp+" 0))", "(<= "+cp+" 4611686018427387904)")
				if st != nil {
					fs = append(fs, "(<= "+ref+" "+st.alloc+")")
				}
			}
		case *types.Interface:
			// the object behind an interface value exists already
			if st != nil {
				fs = append(fs, "(<= (ifaceobj "+t+") "+st.alloc+")")
			}
		case *types.Map, *types.Chan, *types.Signature:
			fs = append(fs, "(>= "+t+" 0)")
			if st != nil {
				fs = append(fs, "(<= "+t+" "+st.alloc+")")
			}
		}
	}
	return sAnd(fs...)
}

func (e *Enc) assumeTypeInv(st *State, v *Val, guarded bool) {
	f := e.typeInvFormula(st, v)
	if guarded && e.curBlock != nil {
		e.assumeHere(f)
	} else {
		e.assume(f)
	}
}

// ---------- strings ----------

func (e *Enc) strLit(s string) string {
	e.useStr = true
	if n, ok := e.lits[s]; ok {
		return n
	}
	n := fmt.Sprintf("lit!%d", len(e.lits))
	e.lits[s] = n
	e.litOrder = append(e.litOrder, s)
	e.declare(n, "Int")
	e.assume(fmt.Sprintf("(= (slen %s) %d)", n, len(s)))
	if len(s) <= 64 {
		for i := 0; i < len(s); i++ {
			e.assume(fmt.Sprintf("(= (sat %s %d) %d)", n, i, s[i]))
		}
	}
	if s == "" {
		e.assume("(= " + n + " sempty)")
	}
	return n
}

// tagOf gives a distinct positive integer per dynamic type.
func (e *Enc) tagOf(T types.Type) int {
	k := typeKey(T)
	if t, ok := e.tags[k]; ok {
		return t
	}
	e.tags[k] = len(e.tags) + 1
	return e.tags[k]
}

func (e *Enc) boxName(T types.Type) string {
	k := typeKey(T)
	name := smtIdent("box:" + k)
	if !e.boxDecl[k] {
		e.boxDecl[k] = true
		var args []string
		for _, lf := range typeLeaves(T) {
			args = append(args, arraySort(lf.Sort, lf.Dims))
		}
		e.declareFun(name, args, "Int")
		for i, lf := range typeLeaves(T) {
			e.declareFun(smtIdent(fmt.Sprintf("unbox:%s:%d", k, i)), []string{"Int"}, arraySort(lf.Sort, lf.Dims))
		}
	}
	return name
}

func (e *Enc) unboxName(T types.Type, i int) string {
	e.boxName(T)
	return smtIdent(fmt.Sprintf("unbox:%s:%d", typeKey(T), i))
}

// ---------- CFG helpers ----------

func (e *Enc) computeLoops() error {
	fn := e.fn
	e.domDepth = map[*ssa.BasicBlock]int{}
	var depth func(b *ssa.BasicBlock, d int)
	depth = func(b *ssa.BasicBlock, d int) {
		e.domDepth[b] = d
		for _, c := range b.Dominees() {
			depth(c, d+1)
		}
	}
	if len(fn.Blocks) > 0 {
		depth(fn.Blocks[0], 0)
	}
	for _, b := range fn.Blocks {
		for _, s := range b.Succs {
			if s.Dominates(b) {
				li := e.loops[s]
				if li == nil {
					li = &loopInfo{Header: s, Body: map[*ssa.BasicBlock]bool{s: true}}
					e.loops[s] = li
				}
				li.Backs = append(li.Backs, b)
				// natural loop: nodes reaching b without passing through s
				var stack []*ssa.BasicBlock
				if !li.Body[b] {
					li.Body[b] = true
					stack = append(stack, b)
				}
				for len(stack) > 0 {
					x := stack[len(stack)-1]
					stack = stack[:len(stack)-1]
					for _, p := range x.Preds {
						if !li.Body[p] {
							li.Body[p] = true
							stack = append(stack, p)
						}
					}
				}
			}
		}
	}
	var hs []*ssa.BasicBlock
	for h, li := range e.loops {
		hs = append(hs, h)
		for _, p := range h.Preds {
			if !h.Dominates(p) {
				li.Entries = append(li.Entries, p)
			}
		}
	}
	sort.Slice(hs, func(i, j int) bool { return hs[i].Index < hs[j].Index })
	for i, h := range hs {
		e.loops[h].Ord = i + 1
	}
	// cross-check with the syntax when we have it
	if e.fn.Syntax() != nil {
		n := len(loopStmtsInSource(e.fn))
		if n != len(hs) {
			// loops with constant-false conditions or unreachable bodies may vanish;
			// labelled continue / goto may add. Record, and refuse loop contracts.
			e.note("loop count mismatch: %d for/range statements vs %d SSA loop headers", n, len(hs))
			if e.ctr != nil && (len(e.ctr.LoopInv) > 0 || len(e.ctr.LoopDec) > 0) {
				return fmt.Errorf("%s: cannot match loop ordinals (%d statements, %d headers)", e.key, n, len(hs))
			}
		}
	}
	return nil
}

// topoOrder returns reachable blocks in reverse postorder ignoring back edges, with
// the blocks of a loop placed before the blocks after it (program order), so that
// the assumptions in force at an obligation come from code that precedes it.
func (e *Enc) topoOrder() []*ssa.BasicBlock {
	// innermost loop of each block
	inner := map[*ssa.BasicBlock]*loopInfo{}
	for _, li := range e.loops {
		for b := range li.Body {
			if cur := inner[b]; cur == nil || len(li.Body) < len(cur.Body) {
				inner[b] = li
			}
		}
	}
	inLoopOf := func(b *ssa.BasicBlock, li *loopInfo) bool { return li != nil && li.Body[b] }
	seen := map[*ssa.BasicBlock]bool{}
	var post []*ssa.BasicBlock
	var dfs func(b *ssa.BasicBlock)
	dfs = func(b *ssa.BasicBlock) {
		seen[b] = true
		// visit loop exits first (they finish first and so come last in the reversed order)
		var exits, stay []*ssa.BasicBlock
		for _, s := range b.Succs {
			if s.Dominates(b) { // back edge
				continue
			}
			if li := inner[b]; li != nil && !inLoopOf(s, li) {
				exits = append(exits, s)
			} else {
				stay = append(stay, s)
			}
		}
		for _, s := range exits {
			if !seen[s] {
				dfs(s)
			}
		}
		for i := len(stay) - 1; i >= 0; i-- {
			if !seen[stay[i]] {
				dfs(stay[i])
			}
		}
		post = append(post, b)
	}
	if len(e.fn.Blocks) > 0 {
		dfs(e.fn.Blocks[0])
	}
	for i, j := 0, len(post)-1; i < j; i, j = i+1, j-1 {
		post[i], post[j] = post[j], post[i]
	}
	return post
}
