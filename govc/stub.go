package main

func tryReplay(id, replayPath string, cfg PropConfig, r *OblResult) bool { return false }

func cmdReplay(id, path string) int { return 0 }
