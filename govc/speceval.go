package main

import (
	"fmt"
	"go/constant"
	"go/token"
	"go/types"
	"math/big"
	"os"
	"sort"
	"strconv"
	"strings"

	"golang.org/x/tools/go/ssa"
)

type specCtx struct {
	env     map[string]envEntry
	resolve func(name string) (envEntry, bool)
	st      *State
	old     *State
	result  *Val
	resSig  *types.Tuple
	pkg     string
	bound   map[string]*Val
	inOld   bool
}

func (c *specCtx) withBound(name string, v *Val) *specCtx {
	n := *c
	n.bound = map[string]*Val{}
	for k, x := range c.bound {
		n.bound[k] = x
	}
	n.bound[name] = v
	return &n
}

func (e *Enc) evalBool(c Clause, env map[string]envEntry, st, old *State, result *Val) string {
	pkg := ""
	if e.ctr != nil {
		pkg = e.ctr.Pkg
	}
	if old == nil {
		old = e.entry
	}
	return e.evalBoolCtx(c, &specCtx{env: env, st: st, old: old, result: result, pkg: pkg})
}

func (e *Enc) evalBoolCtx(c Clause, ctx *specCtx) string {
	defer func() {
		if r := recover(); r != nil {
			if ee, ok := r.(encErr); ok {
				panic(encErr(fmt.Sprintf("%s:%d: in %q: %s", c.File, c.Line, c.Src, string(ee))))
			}
			panic(r)
		}
	}()
	v := e.evalSpec(c.E, ctx)
	if len(v.L) != 1 || !(v.Math == "bool" || (v.T != nil && isBool(v.T))) {
		e.fail("clause is not boolean")
	}
	return v.L[0]
}

func (e *Enc) isBoolVal(v *Val) bool {
	return len(v.L) == 1 && (v.Math == "bool" || (v.T != nil && isBool(v.T)))
}

func (e *Enc) isIntVal(v *Val) bool {
	return len(v.L) == 1 && (v.Math == "int" || (v.T != nil && isInteger(v.T)))
}

// ctxAt builds a context whose identifiers resolve to the SSA values that hold the
// named source variables at (block, instruction index).
func (e *Enc) ctxAt(b *ssa.BasicBlock, idx int, st *State) *specCtx {
	pkg := ""
	if e.ctr != nil {
		pkg = e.ctr.Pkg
	}
	ctx := &specCtx{env: map[string]envEntry{}, st: st, old: e.entry, pkg: pkg}
	ctx.resolve = func(name string) (envEntry, bool) { return e.resolveName(name, b, idx, st) }
	return ctx
}

type nameCand struct {
	v      ssa.Value
	isAddr bool
	block  *ssa.BasicBlock
	idx    int
}

func (e *Enc) resolveName(name string, b *ssa.BasicBlock, idx int, st *State) (envEntry, bool) {
	if name == "rangeidx" {
		// ghost next index of the range iterator stepped in this block's loop
		for _, ins := range b.Instrs {
			if nx, ok := ins.(*ssa.Next); ok {
				if t, ok := st.ghost["iter:"+nx.Iter.Name()]; ok {
					return envEntry{V: mathInt(t)}, true
				}
			}
		}
		// search loop body
		if li := e.loops[b]; li != nil {
			for bb := range li.Body {
				for _, ins := range bb.Instrs {
					if nx, ok := ins.(*ssa.Next); ok {
						if t, ok := st.ghost["iter:"+nx.Iter.Name()]; ok {
							return envEntry{V: mathInt(t)}, true
						}
					}
				}
			}
		}
	}
	if name == "rangevisited" || name == "rangehad" {
		// visited set / initial key set of the map range loop stepped in (or around) b
		pick := func(nx *ssa.Next) (envEntry, bool) {
			it := e.iterInfo[nx.Iter]
			if it == nil || it.Vis == "" {
				return envEntry{}, false
			}
			k := it.Vis
			if name == "rangehad" {
				k = it.Had
			}
			if t, ok := st.ghost[k]; ok {
				return envEntry{V: &Val{L: []string{t}, Math: "set"}}, true
			}
			return envEntry{}, false
		}
		for _, ins := range b.Instrs {
			if nx, ok := ins.(*ssa.Next); ok {
				if r, ok := pick(nx); ok {
					return r, true
				}
			}
		}
		var best *loopInfo
		for _, li := range e.loops {
			if li.Body[b] && (best == nil || len(li.Body) < len(best.Body)) {
				has := false
				for _, ins := range li.Header.Instrs {
					if nx, ok := ins.(*ssa.Next); ok {
						if _, ok := pick(nx); ok {
							has = true
						}
					}
				}
				if has {
					best = li
				}
			}
		}
		if best != nil {
			for _, ins := range best.Header.Instrs {
				if nx, ok := ins.(*ssa.Next); ok {
					if r, ok := pick(nx); ok {
						return r, true
					}
				}
			}
		}
		return envEntry{}, false
	}
	if name == "rangeval" || name == "rangekey" {
		// the element / key produced by the innermost enclosing `range` over a string or map
		var best *ssa.Next
		for _, bb := range e.fn.Blocks {
			if bb != b && !bb.Dominates(b) {
				continue
			}
			for _, ins := range bb.Instrs {
				if nx, ok := ins.(*ssa.Next); ok {
					if _, done := e.vals[nx]; done && (best == nil || e.domDepth[bb] >= e.domDepth[best.Block()]) {
						best = nx
					}
				}
			}
		}
		if best != nil {
			k := 2
			if name == "rangekey" {
				k = 1
			}
			return envEntry{V: e.tupleElem(e.vals[best], k)}, true
		}
	}
	var cands []nameCand
	for _, bb := range e.fn.Blocks {
		for i, ins := range bb.Instrs {
			switch x := ins.(type) {
			case *ssa.DebugRef:
				if id := x.Object(); id != nil && id.Name() == name {
					if v, isVar := id.(*types.Var); isVar && !v.IsField() {
						cands = append(cands, nameCand{x.X, x.IsAddr, bb, i})
					}
				}
			case *ssa.Phi:
				if x.Comment == name {
					cands = append(cands, nameCand{x, false, bb, -1})
				}
			case *ssa.Alloc:
				if x.Comment == name {
					cands = append(cands, nameCand{x, true, bb, i})
				}
			}
		}
	}
	// a variable kept in memory (address-taken / struct local): the cell wins over any
	// DebugRef that records one of its values
	for i := range cands {
		c := &cands[i]
		if al, ok := c.v.(*ssa.Alloc); ok && c.isAddr && al.Comment == name {
			dominates := (c.block == b && c.idx < idx) || (c.block != b && c.block.Dominates(b))
			if _, have := e.vals[c.v]; have && dominates {
				// assigned exactly once before any closure captures it: one value (the
				// cell itself may have been forgotten by a havoc)
				if v, ok := e.allocVal[al]; ok && e.stableLocalAlloc(al) {
					return envEntry{V: v}, true
				}
				return envEntry{V: e.val(c.v), IsAddr: true}, true
			}
		}
	}
	var best *nameCand
	for i := range cands {
		c := &cands[i]
		// the location of the candidate must dominate (b, idx)
		if c.block == b {
			if c.idx >= idx && c.idx != -1 {
				// a later reference in the same block is fine when it names a phi of
				// this block (phis are defined at block entry)
				if ph, ok := c.v.(*ssa.Phi); !ok || ph.Block() != b {
					continue
				}
			}
		} else if !c.block.Dominates(b) {
			continue
		}
		// the value itself must be available
		if _, ok := e.vals[c.v]; !ok {
			switch c.v.(type) {
			case *ssa.Const, *ssa.Global, *ssa.Function:
			default:
				continue
			}
		}
		if best == nil {
			best = c
			continue
		}
		db, dc := e.domDepth[best.block], e.domDepth[c.block]
		if dc > db || (dc == db && c.idx > best.idx) {
			best = c
		}
	}
	if best != nil {
		return envEntry{V: e.val(best.v), IsAddr: best.isAddr}, true
	}
	for _, p := range e.fn.Params {
		if p.Name() == name {
			return envEntry{V: e.vals[p]}, true
		}
	}
	for _, fv := range e.fn.FreeVars {
		if fv.Name() == name {
			_, isPtr := fv.Type().Underlying().(*types.Pointer)
			return envEntry{V: e.vals[fv], IsAddr: isPtr}, true
		}
	}
	return envEntry{}, false
}

func (e *Enc) lookupPkgObject(pkgPath, qual, name string) types.Object {
	var tp *types.Package
	if p, ok := e.P.Pkgs[pkgPath]; ok {
		tp = p.Types
	} else if e.fn != nil && e.fn.Pkg != nil {
		tp = e.fn.Pkg.Pkg
	}
	if tp == nil {
		return nil
	}
	if qual == "" {
		return tp.Scope().Lookup(name)
	}
	for _, imp := range tp.Imports() {
		if imp.Name() == qual {
			return imp.Scope().Lookup(name)
		}
	}
	// file-level import aliases are not in types.Package; try by path suffix
	for _, imp := range tp.Imports() {
		if strings.HasSuffix(imp.Path(), "/"+qual) {
			return imp.Scope().Lookup(name)
		}
	}
	return nil
}

func (e *Enc) evalSpec(x SExpr, ctx *specCtx) *Val {
	switch x := x.(type) {
	case autoPhiRef:
		// single identifier bound to a specific phi
		c2 := *ctx
		c2.env = map[string]envEntry{}
		for k, v := range ctx.env {
			c2.env[k] = v
		}
		c2.env[x.Phi.Comment] = envEntry{V: e.vals[x.Phi]}
		return e.evalSpec(x.E, &c2)
	case SLit:
		switch x.Kind {
		case "int":
			n := new(big.Int)
			if _, ok := n.SetString(x.Val, 0); !ok {
				e.fail("bad integer literal %s", x.Val)
			}
			return mathInt(sBig(n))
		case "bool":
			return mathBool(x.Val)
		case "string":
			return &Val{T: types.Typ[types.String], L: []string{e.strLit(x.Val)}}
		case "nil":
			return &Val{L: []string{"0"}, Math: "nil"}
		case "float":
			f, _ := strconv.ParseFloat(x.Val, 64)
			if f == 0 {
				return &Val{T: types.Typ[types.Float64], L: []string{"fzero"}}
			}
			name := smtIdent("fc:" + fmt.Sprintf("%g", f))
			e.declare(name, "F")
			return &Val{T: types.Typ[types.Float64], L: []string{name}}
		}
	case SIdent:
		return e.evalIdent(x.Name, ctx)
	case SSel:
		return e.evalSel(x, ctx)
	case SIndex:
		return e.evalIndex(x, ctx)
	case SSlice:
		return e.evalSliceExpr(x, ctx)
	case SCall:
		return e.evalCallSpec(x, ctx)
	case SUnary:
		if x.Op == "&" {
			return e.evalAddrOf(x.X, ctx)
		}
		v := e.evalSpec(x.X, ctx)
		switch x.Op {
		case "!":
			return mathBool(sNot(v.L[0]))
		case "-":
			return mathInt("(- " + v.L[0] + ")")
		case "*":
			pt, ok := v.T.Underlying().(*types.Pointer)
			if !ok {
				e.fail("* applied to non-pointer")
			}
			return e.loadSpec(ctx, v, pt.Elem())
		}
		e.fail("unsupported unary %s", x.Op)
	case SBinary:
		return e.evalBinarySpec(x, ctx)
	case SQuant:
		// forall x :: G ==> (A && B)  is split into two quantifiers: smaller bodies give
		// the solvers usable triggers
		if x.Forall {
			if imp, ok := x.Body.(SBinary); ok && imp.Op == "==>" {
				if conj, ok := imp.Y.(SBinary); ok && conj.Op == "&&" {
					a := e.evalSpec(SQuant{Forall: true, Vars: x.Vars, Body: SBinary{"==>", imp.X, conj.X}}, ctx)
					b := e.evalSpec(SQuant{Forall: true, Vars: x.Vars, Body: SBinary{"==>", imp.X, conj.Y}}, ctx)
					return mathBool(sAnd(a.L[0], b.L[0]))
				}
			} else if conj, ok := x.Body.(SBinary); ok && conj.Op == "&&" {
				a := e.evalSpec(SQuant{Forall: true, Vars: x.Vars, Body: conj.X}, ctx)
				b := e.evalSpec(SQuant{Forall: true, Vars: x.Vars, Body: conj.Y}, ctx)
				return mathBool(sAnd(a.L[0], b.L[0]))
			}
		}
		c2 := ctx
		var binders []string
		var guards []string
		for _, v := range x.Vars {
			bv, sortName, guard := e.boundVar(v, ctx)
			c2 = c2.withBound(v.Name, bv)
			binders = append(binders, "("+bv.L[0]+" "+sortName+")")
			if guard != "" {
				guards = append(guards, guard)
			}
		}
		body := e.evalSpec(x.Body, c2)
		if !e.isBoolVal(body) {
			e.fail("quantifier body is not boolean")
		}
		q := "forall"
		bt := body.L[0]
		if x.Forall {
			bt = sImp(sAnd(guards...), bt)
		} else {
			q = "exists"
			bt = sAnd(append(guards, bt)...)
		}
		if x.Forall && len(x.Vars) == 1 && os.Getenv("GOVC_NOPATTERNS") == "" {
			bv := c2.bound[x.Vars[0].Name].L[0]
			if pats := selectPatterns(bt, bv); len(pats) > 0 {
				var ps strings.Builder
				for _, p := range pats {
					ps.WriteString(" :pattern (" + p + ")")
				}
				return mathBool("(" + q + " (" + strings.Join(binders, " ") + ") (! " + bt + ps.String() + " :qid govcspec))")
			}
		}
		return mathBool("(" + q + " (" + strings.Join(binders, " ") + ") " + bt + ")")
	}
	e.fail("cannot evaluate spec expression %s", specString(x))
	return nil
}

// selectPatterns proposes E-matching triggers for a quantified body: the select
// terms whose index mentions the bound variable while the array does not.
func selectPatterns(body, bv string) []string {
	var out []string
	seen := map[string]bool{}
	// scan for "(select " occurrences
	for i := 0; i+8 <= len(body); i++ {
		if !strings.HasPrefix(body[i:], "(select ") {
			continue
		}
		end := matchParen(body, i)
		if end < 0 {
			continue
		}
		term := body[i : end+1]
		// split args
		inner := term[len("(select ") : len(term)-1]
		aEnd := sexprEnd(inner, 0)
		if aEnd < 0 {
			continue
		}
		arr := strings.TrimSpace(inner[:aEnd])
		idx := strings.TrimSpace(inner[aEnd:])
		if strings.Contains(arr, bv) || !strings.Contains(idx, bv) {
			continue
		}
		if strings.Contains(idx, "(ite ") || strings.Contains(idx, "(select ") {
			continue
		}
		if !seen[term] && len(out) < 4 {
			seen[term] = true
			out = append(out, term)
		}
	}
	return out
}

var qvCounter int

func (e *Enc) boundVar(v SVar, ctx *specCtx) (*Val, string, string) {
	qvCounter++
	name := fmt.Sprintf("%s?%d", v.Name, qvCounter)
	name = smtIdent(name)
	switch v.Type {
	case "int":
		return mathInt(name), "Int", ""
	case "bool":
		return mathBool(name), "Bool", ""
	case "string":
		e.useStr = true
		return &Val{T: types.Typ[types.String], L: []string{name}}, "Int", "(>= (slen " + name + ") 0)"
	}
	T := e.resolveTypeName(v.Type, ctx.pkg)
	if T == nil {
		e.fail("unknown type %s in quantifier", v.Type)
	}
	lv := typeLeaves(T)
	if len(lv) != 1 {
		e.fail("quantified variable of composite type %s", v.Type)
	}
	bv := &Val{T: T, L: []string{name}}
	guard := ""
	if isInteger(T) {
		guard = intRangeFormula(name, T)
	}
	return bv, lv[0].Sort, guard
}

func (e *Enc) resolveTypeName(name, pkg string) types.Type {
	switch name {
	case "int":
		return types.Typ[types.Int]
	case "int8":
		return types.Typ[types.Int8]
	case "int16":
		return types.Typ[types.Int16]
	case "int32", "rune":
		return types.Typ[types.Int32]
	case "int64":
		return types.Typ[types.Int64]
	case "uint":
		return types.Typ[types.Uint]
	case "uint8", "byte":
		return types.Typ[types.Uint8]
	case "uint16":
		return types.Typ[types.Uint16]
	case "uint32":
		return types.Typ[types.Uint32]
	case "uint64":
		return types.Typ[types.Uint64]
	case "bool":
		return types.Typ[types.Bool]
	case "string":
		return types.Typ[types.String]
	case "float32":
		return types.Typ[types.Float32]
	case "float64":
		return types.Typ[types.Float64]
	}
	if strings.HasPrefix(name, "[]") {
		if el := e.resolveTypeName(name[2:], pkg); el != nil {
			return types.NewSlice(el)
		}
		return nil
	}
	if strings.HasPrefix(name, "*") {
		if el := e.resolveTypeName(name[1:], pkg); el != nil {
			return types.NewPointer(el)
		}
		return nil
	}
	qual, n := "", name
	if i := strings.Index(name, "."); i >= 0 {
		qual, n = name[:i], name[i+1:]
	}
	if obj := e.lookupPkgObject(pkg, qual, n); obj != nil {
		if tn, ok := obj.(*types.TypeName); ok {
			return tn.Type()
		}
	}
	return nil
}

func (e *Enc) evalIdent(name string, ctx *specCtx) *Val {
	if v, ok := ctx.bound[name]; ok {
		return v
	}
	if name == "result" && ctx.result != nil {
		return ctx.result
	}
	if en, ok := ctx.env[name]; ok {
		return e.entryValue(en, ctx)
	}
	if ctx.resolve != nil {
		if en, ok := ctx.resolve(name); ok {
			return e.entryValue(en, ctx)
		}
	}
	if strings.HasPrefix(name, "ghost_") {
		st := ctx.st
		if t, ok := st.ghost["g:"+name]; ok {
			return mathInt(t)
		}
		// ghost variables start unconstrained per epoch
		n := e.declare(fmt.Sprintf("%s!e%d", name, st.epoch), "Int")
		st.ghost["g:"+name] = n
		return mathInt(n)
	}
	// package-level constant or variable
	if obj := e.lookupPkgObject(ctx.pkg, "", name); obj != nil {
		return e.objectValue(obj, ctx)
	}
	if nn := e.renamedLocal(name); nn != "" {
		e.note("contract name %q: the variable is now called %q (same declaration ordinal and type); renamed local followed", name, nn)
		return e.evalIdent(nn, ctx)
	}
	e.fail("unknown identifier %q", name)
	return nil
}

func (e *Enc) entryValue(en envEntry, ctx *specCtx) *Val {
	if !en.IsAddr {
		return en.V
	}
	pt := en.V.T.Underlying().(*types.Pointer)
	return e.loadSpec(ctx, en.V, pt.Elem())
}

func (e *Enc) objectValue(obj types.Object, ctx *specCtx) *Val {
	switch o := obj.(type) {
	case *types.Const:
		return e.constantValue(o.Val(), o.Type())
	case *types.Var:
		// package-level variable: load through its global
		if sp, ok := e.P.SSA[o.Pkg().Path()]; ok {
			if g, ok := sp.Members[o.Name()].(*ssa.Global); ok {
				gv := e.val(g)
				return e.loadSpec(ctx, gv, o.Type())
			}
		}
		// variable of a package without SSA: an opaque, fixed value
		name := smtIdent("extvar:" + o.Pkg().Path() + "." + o.Name())
		v := &Val{T: o.Type()}
		for i, lf := range typeLeaves(o.Type()) {
			n := name
			if i > 0 {
				n = smtIdent(fmt.Sprintf("extvar:%s.%s:%d", o.Pkg().Path(), o.Name(), i))
			}
			e.declare(n, arraySort(lf.Sort, lf.Dims))
			v.L = append(v.L, n)
		}
		return e.annotate(v)
	}
	e.fail("identifier %s is not a constant or variable", obj.Name())
	return nil
}

func (e *Enc) constantValue(cv constant.Value, T types.Type) *Val {
	switch cv.Kind() {
	case constant.Int:
		n, _ := new(big.Int).SetString(cv.ExactString(), 10)
		if b, ok := T.Underlying().(*types.Basic); ok && b.Info()&types.IsUntyped == 0 {
			return &Val{T: T, L: []string{sBig(n)}}
		}
		return mathInt(sBig(n))
	case constant.Bool:
		if constant.BoolVal(cv) {
			return mathBool("true")
		}
		return mathBool("false")
	case constant.String:
		return &Val{T: types.Typ[types.String], L: []string{e.strLit(constant.StringVal(cv))}}
	case constant.Float:
		if f, ok := constant.Float64Val(cv); ok && f == float64(int64(f)) && !isFloat(T) {
			return mathInt(sInt(int64(f)))
		}
		return &Val{T: T, L: []string{e.floatConst(cv)}}
	}
	e.fail("unsupported constant kind")
	return nil
}

func (e *Enc) loadSpec(ctx *specCtx, p *Val, T types.Type) *Val {
	st := ctx.st
	if ctx.inOld {
		st = ctx.old
	}
	v := &Val{T: T}
	if arr, ok := T.Underlying().(*types.Array); ok {
		p = e.rowPtr(e.annotate(p), arr)
		elemPtr := &Val{T: types.NewPointer(arr.Elem()), L: p.L, Root: p.Root}
		for _, a := range e.accesses(elemPtr, arr.Elem()) {
			v.L = append(v.L, sSel(e.heapGet(st, a.HK), a.Idx[0]))
		}
		return v
	}
	acc := e.accesses(e.annotate(p), T)
	if acc == nil {
		e.fail("cannot load through pointer of type %v", p.T)
	}
	for _, a := range acc {
		v.L = append(v.L, sSel(e.heapGet(st, a.HK), a.Idx...))
	}
	return e.annotate(v)
}

// evalAddrOf: &s[i], &p.f, &x (for addressable variables)
// ghostLoc: ghost fields live in one array per ghost name, indexed by object identity:
// (ref, idx) for a pointer, (ifaceobj(id), 0) for an interface value; boxing a pointer
// links the two views (ifaceobj(box(p)) == p.ref), also after a trip through the heap.
func (e *Enc) ghostLoc(name string, base *Val) (*heapKey, []string) {
	hk := e.hkeyNamed(types.Typ[types.UnsafePointer], "/"+name, "Int")
	if base.T != nil {
		if _, ok := base.T.Underlying().(*types.Interface); ok {
			return hk, []string{"(ifaceobj " + base.L[0] + ")", "0"}
		}
	}
	if len(base.L) >= 2 {
		return hk, []string{base.L[0], base.L[1]}
	}
	return hk, []string{base.L[0], "0"}
}

// ghostOwnerKey: ghost fields of an object are keyed by its type; every interface
// value shares one key (the static interface type is just a view of the object).
func ghostOwnerKey(T types.Type) string {
	if T == nil {
		return "?"
	}
	if _, ok := T.Underlying().(*types.Interface); ok {
		return "iface"
	}
	return typeKey(T)
}

func (e *Enc) evalAddrOf(x SExpr, ctx *specCtx) *Val {
	switch x := x.(type) {
	case SIdent:
		// &v for an address-taken local / by-reference captured variable
		if en, ok := ctx.env[x.Name]; ok && en.IsAddr {
			return en.V
		}
		if ctx.resolve != nil {
			if en, ok := ctx.resolve(x.Name); ok && en.IsAddr {
				return en.V
			}
		}
	case SIndex:
		base := e.evalSpec(x.X, ctx)
		i := e.evalSpec(x.I, ctx)
		if sl, ok := base.T.Underlying().(*types.Slice); ok {
			return &Val{T: types.NewPointer(sl.Elem()), L: []string{base.L[slRef], e.simpAdd(base.L[slOff], i.L[0])}, Root: sl.Elem()}
		}
	case SSel:
		base := e.evalSpec(x.X, ctx)
		if pt, ok := base.T.Underlying().(*types.Pointer); ok {
			if stt, ok := pt.Elem().Underlying().(*types.Struct); ok {
				path, ft := findField(stt, x.Name)
				if path != nil {
					p := &Val{T: types.NewPointer(ft), L: base.L, Root: base.Root, Path: append([]Step{}, base.Path...)}
					if p.Root == nil {
						p.Root = ptrRoot(pt.Elem())
					}
					for _, f := range path {
						p.Path = append(p.Path, Step{Field: f})
					}
					return p
				}
			}
		}
	}
	e.fail("cannot take the address of %s in a specification", specString(x))
	return nil
}

func (e *Enc) evalSel(x SSel, ctx *specCtx) *Val {
	// package-qualified constant / variable
	if id, ok := x.X.(SIdent); ok {
		_, bound := ctx.bound[id.Name]
		_, inEnv := ctx.env[id.Name]
		resolved := false
		if !bound && !inEnv && ctx.resolve != nil {
			_, resolved = ctx.resolve(id.Name)
		}
		if !bound && !inEnv && !resolved && id.Name != "result" {
			if obj := e.lookupPkgObject(ctx.pkg, id.Name, x.Name); obj != nil {
				return e.objectValue(obj, ctx)
			}
		}
	}
	base := e.evalSpec(x.X, ctx)
	// tuple component: result.0
	if n, err := fmt.Sscanf(x.Name, "%d", new(int)); err == nil && n == 1 {
		var k int
		fmt.Sscanf(x.Name, "%d", &k)
		if tt, ok := base.T.(*types.Tuple); ok {
			if k >= tt.Len() {
				e.fail("tuple index %d out of range", k)
			}
			return e.tupleElem(base, k)
		}
		if k == 0 {
			return base
		}
		e.fail("numeric selector on non-tuple")
	}
	if base.T == nil {
		e.fail("selector .%s on untyped value", x.Name)
	}
	// ghost fields: x.ghost_name -> per-object ghost map
	if strings.HasPrefix(x.Name, "ghost_") {
		st := ctx.st
		if ctx.inOld {
			st = ctx.old
		}
		hk, idx := e.ghostLoc(x.Name, base)
		if base.T != nil {
			if _, ok := base.T.Underlying().(*types.Interface); ok {
				// the object behind an interface value read in that state exists in that state
				e.assume("(<= (ifaceobj " + base.L[0] + ") " + st.alloc + ")")
			}
		}
		return mathInt(sSel(e.heapGet(st, hk), idx...))
	}
	T := base.T
	if pt, ok := T.Underlying().(*types.Pointer); ok {
		// auto-deref: field address then load
		stt, ok := pt.Elem().Underlying().(*types.Struct)
		if !ok {
			e.fail("selector .%s on pointer to non-struct %v", x.Name, pt.Elem())
		}
		path, ft := findField(stt, x.Name)
		if path == nil {
			e.fail("no field %s in %v", x.Name, pt.Elem())
		}
		p := &Val{T: types.NewPointer(ft), L: base.L, Root: base.Root, Path: append([]Step{}, base.Path...)}
		e.annotate(&Val{T: base.T, Root: base.Root})
		if p.Root == nil {
			p.Root = ptrRoot(pt.Elem())
		}
		for _, f := range path {
			p.Path = append(p.Path, Step{Field: f})
		}
		return e.loadSpec(ctx, p, ft)
	}
	if stt, ok := T.Underlying().(*types.Struct); ok {
		path, _ := findField(stt, x.Name)
		if path == nil {
			e.fail("no field %s in %v", x.Name, T)
		}
		cur := base
		for _, f := range path {
			cur = e.fieldOf(cur, f)
		}
		return cur
	}
	e.fail("selector .%s on %v", x.Name, T)
	return nil
}

// findField finds a (possibly promoted) field by name; returns the index path.
func findField(st *types.Struct, name string) ([]int, types.Type) {
	for i := 0; i < st.NumFields(); i++ {
		if st.Field(i).Name() == name {
			return []int{i}, st.Field(i).Type()
		}
	}
	for i := 0; i < st.NumFields(); i++ {
		f := st.Field(i)
		if f.Embedded() {
			t := f.Type()
			if inner, ok := t.Underlying().(*types.Struct); ok {
				if p, ft := findField(inner, name); p != nil {
					return append([]int{i}, p...), ft
				}
			}
		}
	}
	return nil, nil
}

// ghostArrayLoc: p.ghost_x[i] - a ghost array of the object, one array per ghost name
// with an extra index dimension.
func (e *Enc) ghostArrayLoc(sel SSel, ctx *specCtx) (*heapKey, []string) {
	base := e.evalSpec(sel.X, ctx)
	k := typeKey(types.Typ[types.UnsafePointer]) + "/" + sel.Name + "[]"
	hk, ok := e.hkeys[k]
	if !ok {
		hk = &heapKey{Key: k, Root: typeKey(types.Typ[types.UnsafePointer]), Leaf: Leaf{Sort: "Int"}, Sort: arraySort("Int", 3)}
		e.hkeys[k] = hk
	}
	if base.T != nil {
		if _, isIface := base.T.Underlying().(*types.Interface); isIface {
			return hk, []string{"(ifaceobj " + base.L[0] + ")", "0"}
		}
	}
	if len(base.L) >= 2 {
		return hk, []string{base.L[0], base.L[1]}
	}
	return hk, []string{base.L[0], "0"}
}

func (e *Enc) evalIndex(x SIndex, ctx *specCtx) *Val {
	if sel, ok := x.X.(SSel); ok && strings.HasPrefix(sel.Name, "ghost_") {
		hk, idx := e.ghostArrayLoc(sel, ctx)
		i := e.evalSpec(x.I, ctx)
		st := ctx.st
		if ctx.inOld {
			st = ctx.old
		}
		return mathInt(sSel(e.heapGet(st, hk), append(idx, i.L[0])...))
	}
	base := e.evalSpec(x.X, ctx)
	i := e.evalSpec(x.I, ctx)
	if base.T == nil {
		e.fail("index on untyped value")
	}
	switch u := base.T.Underlying().(type) {
	case *types.Slice:
		if strings.HasPrefix(base.L[slRef], "?row:") {
			return e.annotate(&Val{T: u.Elem(), L: []string{"(select " + base.L[slRef][5:] + " " + e.simpAdd(base.L[slOff], i.L[0]) + ")"}})
		}
		p := &Val{T: types.NewPointer(u.Elem()), L: []string{base.L[slRef], e.simpAdd(base.L[slOff], i.L[0])}, Root: u.Elem()}
		return e.loadSpec(ctx, p, u.Elem())
	case *types.Array:
		v := &Val{T: u.Elem()}
		for _, l := range base.L {
			v.L = append(v.L, "(select "+l+" "+i.L[0]+")")
		}
		return e.annotate(v)
	case *types.Basic:
		if isString(base.T) {
			e.useStr = true
			return &Val{T: types.Typ[types.Uint8], L: []string{"(sat " + base.L[0] + " " + i.L[0] + ")"}}
		}
	case *types.Map:
		if !mapKeyOK(u) {
			e.fail("map with composite key in spec")
		}
		st := ctx.st
		if ctx.inOld {
			st = ctx.old
		}
		_, _, vals := e.mapKeys(u)
		v := &Val{T: u.Elem()}
		for _, hk := range vals {
			v.L = append(v.L, sSel(e.heapGet(st, hk), base.L[0], i.L[0]))
		}
		return e.annotate(v)
	case *types.Pointer:
		if arr, ok := u.Elem().Underlying().(*types.Array); ok {
			rb := e.rowPtr(e.annotate(base), arr)
			p := &Val{T: types.NewPointer(arr.Elem()), L: []string{rb.L[0], e.simpAdd(rb.L[1], i.L[0])}, Root: rb.Root}
			return e.loadSpec(ctx, p, arr.Elem())
		}
	}
	e.fail("cannot index %v", base.T)
	return nil
}

func (e *Enc) evalSliceExpr(x SSlice, ctx *specCtx) *Val {
	base := e.evalSpec(x.X, ctx)
	lo := "0"
	if x.Lo != nil {
		lo = e.evalSpec(x.Lo, ctx).L[0]
	}
	if base.T != nil && isString(base.T) {
		e.useStr = true
		hi := "(slen " + base.L[0] + ")"
		if x.Hi != nil {
			hi = e.evalSpec(x.Hi, ctx).L[0]
		}
		return &Val{T: base.T, L: []string{"(ssub " + base.L[0] + " " + lo + " " + hi + ")"}}
	}
	if _, ok := base.T.Underlying().(*types.Slice); ok {
		hi := base.L[slLen]
		if x.Hi != nil {
			hi = e.evalSpec(x.Hi, ctx).L[0]
		}
		return e.annotate(&Val{T: base.T, L: []string{base.L[slRef], e.simpAdd(base.L[slOff], lo), e.simpSub(hi, lo), e.simpSub(base.L[slCap], lo)}})
	}
	e.fail("cannot slice %v", base.T)
	return nil
}

func (e *Enc) evalBinarySpec(x SBinary, ctx *specCtx) *Val {
	switch x.Op {
	case "&&", "||", "==>", "<==>":
		a := e.evalSpec(x.X, ctx)
		b := e.evalSpec(x.Y, ctx)
		if !e.isBoolVal(a) || !e.isBoolVal(b) {
			e.fail("operands of %s must be boolean", x.Op)
		}
		switch x.Op {
		case "&&":
			return mathBool(sAnd(a.L[0], b.L[0]))
		case "||":
			return mathBool(sOr(a.L[0], b.L[0]))
		case "==>":
			return mathBool(sImp(a.L[0], b.L[0]))
		default:
			return mathBool("(= " + a.L[0] + " " + b.L[0] + ")")
		}
	}
	a := e.evalSpec(x.X, ctx)
	b := e.evalSpec(x.Y, ctx)
	switch x.Op {
	case "==", "!=":
		var r string
		switch {
		case a.Math == "nil" || b.Math == "nil":
			o := a
			if a.Math == "nil" {
				o = b
			}
			r = "(= " + o.L[0] + " 0)"
		case len(a.L) == 2 && len(b.L) == 2 && a.T != nil && isPointerType(a.T) && a.Root != nil && b.Root != nil && typeKey(a.Root) != typeKey(b.Root):
			// pointers into objects of different types: different objects (references are
			// numbered per type, so the numbers may coincide); equal only if both are nil
			r = "(and (= " + a.L[0] + " 0) (= " + b.L[0] + " 0))"
		case len(a.L) == 2 && len(b.L) == 2 && a.T != nil && isPointerType(a.T):
			// pointers: nil is ref 0 whatever the index
			r = "(and (= " + a.L[0] + " " + b.L[0] + ") (or (= " + a.L[0] + " 0) (= " + a.L[1] + " " + b.L[1] + ")))"
		case len(a.L) == len(b.L):
			var eqs []string
			for i := range a.L {
				if a.T != nil && isFloat(a.T) {
					eqs = append(eqs, "(feq "+a.L[i]+" "+b.L[i]+")")
				} else {
					eqs = append(eqs, sEq(a.L[i], b.L[i]))
				}
			}
			r = sAnd(eqs...)
		default:
			e.fail("comparison of differently shaped values")
		}
		if x.Op == "!=" {
			r = sNot(r)
		}
		return mathBool(r)
	case "<", "<=", ">", ">=":
		if a.T != nil && isFloat(a.T) || b.T != nil && isFloat(b.T) {
			switch x.Op {
			case "<":
				return mathBool("(flt " + a.L[0] + " " + b.L[0] + ")")
			case "<=":
				return mathBool("(fle " + a.L[0] + " " + b.L[0] + ")")
			case ">":
				return mathBool("(flt " + b.L[0] + " " + a.L[0] + ")")
			default:
				return mathBool("(fle " + b.L[0] + " " + a.L[0] + ")")
			}
		}
		if !e.isIntVal(a) || !e.isIntVal(b) {
			e.fail("operands of %s must be integers", x.Op)
		}
		return mathBool("(" + x.Op + " " + a.L[0] + " " + b.L[0] + ")")
	case "+":
		if a.T != nil && isString(a.T) {
			e.useStr = true
			return &Val{T: a.T, L: []string{"(scat " + a.L[0] + " " + b.L[0] + ")"}}
		}
		return mathInt("(+ " + a.L[0] + " " + b.L[0] + ")")
	case "-":
		return mathInt("(- " + a.L[0] + " " + b.L[0] + ")")
	case "*":
		return mathInt("(* " + a.L[0] + " " + b.L[0] + ")")
	case "/":
		return mathInt("(gdiv " + a.L[0] + " " + b.L[0] + ")")
	case "%":
		if _, isConst := constOf(b); !isConst && e.ctr != nil && strings.Contains(e.ctr.Opts["abstract"], "mod") {
			return mathInt("(umod " + a.L[0] + " " + b.L[0] + ")")
		}
		return mathInt("(gmod " + a.L[0] + " " + b.L[0] + ")")
	case "<<":
		if c, ok := constOf(b); ok && c.IsInt64() {
			return mathInt("(* " + a.L[0] + " " + pow2(uint(c.Int64())).String() + ")")
		}
		return mathInt("(* " + a.L[0] + " (pow2 " + b.L[0] + "))")
	case ">>":
		if c, ok := constOf(b); ok && c.IsInt64() {
			return mathInt("(div " + a.L[0] + " " + pow2(uint(c.Int64())).String() + ")")
		}
	case "&":
		T := a.T
		if T == nil {
			T = b.T
		}
		if T == nil {
			T = types.Typ[types.Uint64]
		}
		return mathInt(e.bitop(token.AND, a, b, T))
	}
	e.fail("unsupported binary operator %s in spec", x.Op)
	return nil
}

func (e *Enc) evalCallSpec(x SCall, ctx *specCtx) *Val {
	switch x.Fn {
	case "old":
		c2 := *ctx
		c2.inOld = true
		c2.st = ctx.old
		return e.evalSpec(x.Args[0], &c2)
	case "len", "cap":
		v := e.evalSpec(x.Args[0], ctx)
		if v.T == nil {
			e.fail("len of untyped value")
		}
		switch u := v.T.Underlying().(type) {
		case *types.Slice:
			if x.Fn == "len" {
				return mathInt(v.L[slLen])
			}
			return mathInt(v.L[slCap])
		case *types.Basic:
			e.useStr = true
			return mathInt("(slen " + v.L[0] + ")")
		case *types.Array:
			return mathInt(fmt.Sprint(u.Len()))
		case *types.Map:
			st := ctx.st
			if ctx.inOld {
				st = ctx.old
			}
			_, ln, _ := e.mapKeys(u)
			return mathInt(sSel(e.heapGet(st, ln), v.L[0], "0"))
		}
		e.fail("len of %v", v.T)
	case "ite":
		c := e.evalSpec(x.Args[0], ctx)
		a := e.evalSpec(x.Args[1], ctx)
		b := e.evalSpec(x.Args[2], ctx)
		out := &Val{T: a.T, Math: a.Math}
		if a.T == nil && b.T != nil {
			out.T, out.Math = b.T, ""
		}
		for i := range a.L {
			out.L = append(out.L, sIte(c.L[0], a.L[i], b.L[i]))
		}
		return out
	case "min", "max":
		a := e.evalSpec(x.Args[0], ctx)
		b := e.evalSpec(x.Args[1], ctx)
		if x.Fn == "min" {
			return mathInt(sIte("(< "+a.L[0]+" "+b.L[0]+")", a.L[0], b.L[0]))
		}
		return mathInt(sIte("(< "+a.L[0]+" "+b.L[0]+")", b.L[0], a.L[0]))
	case "has":
		// has(m, k): map membership
		m := e.evalSpec(x.Args[0], ctx)
		k := e.evalSpec(x.Args[1], ctx)
		mt, ok := m.T.Underlying().(*types.Map)
		if !ok || !mapKeyOK(mt) {
			e.fail("has() needs a map with scalar key")
		}
		st := ctx.st
		if ctx.inOld {
			st = ctx.old
		}
		hasK, _, _ := e.mapKeys(mt)
		return mathBool(sAnd("(not (= "+m.L[0]+" 0))", sSel(e.heapGet(st, hasK), m.L[0], k.L[0])))
	case "held":
		// held(x.mu): ghost lock state of the mutex object
		mu := e.evalAddrOf(x.Args[0], ctx)
		st := ctx.st
		if ctx.inOld {
			st = ctx.old
		}
		return mathBool(e.heldTerm(st, mu))
	case "visited", "rangehad":
		// visited(k): key k has been produced by the enclosing map range loop;
		// rangehad(k): k was a key of the map when that range statement started
		name := "rangevisited"
		if x.Fn == "rangehad" {
			name = "rangehad"
		}
		if ctx.resolve == nil {
			panic(encErr(x.Fn + "(k) is only meaningful inside a map range loop"))
		}
		ent, ok := ctx.resolve(name)
		if !ok {
			panic(encErr(x.Fn + "(k): no tracked map range loop here (the loop may delete from the map, or keys are not scalars)"))
		}
		k := e.evalSpec(x.Args[0], ctx)
		return mathBool("(select " + ent.V.L[0] + " " + k.L[0] + ")")
	case "sum":
		// sum(xs): mathematical sum of the elements of an integer slice; an uninterpreted
		// function of (row, offset, length) with update axioms (no induction needed for
		// "one element changes by v")
		v := e.evalSpec(x.Args[0], ctx)
		sl, ok := v.T.Underlying().(*types.Slice)
		if !ok || !isInteger(sl.Elem()) {
			e.fail("sum(xs): xs must be a slice of integers")
		}
		st := ctx.st
		if ctx.inOld {
			st = ctx.old
		}
		row := e.sliceRow(st, v, sl.Elem())
		if !e.declSet["ssum"] {
			e.declSet["ssum"] = true
			e.decls = append(e.decls, "(declare-fun ssum ((Array Int Int) Int Int) Int)")
			e.assume("(forall ((r (Array Int Int)) (o Int)) (! (= (ssum r o 0) 0) :pattern ((ssum r o 0))))")
			e.assume("(forall ((o Int) (n Int)) (! (= (ssum ((as const (Array Int Int)) 0) o n) 0) :pattern ((ssum ((as const (Array Int Int)) 0) o n))))")
		}
		{
			// register the view: stores into this heap component emit ground update facts
			// (a quantified update axiom over all arrays made unrelated queries diverge)
			lv := typeLeaves(sl.Elem())
			hk := e.hkey(sl.Elem(), "", lv[0], 0)
			t := sumTerm{hk.Key, v.L[slRef], v.L[slOff], v.L[slLen]}
			seen := strings.Contains(t.ref+t.off+t.ln, "?") // mentions a bound variable: no global facts
			for _, o := range e.sumTerms {
				if o == t {
					seen = true
				}
			}
			if !seen {
				e.sumTerms = append(e.sumTerms, t)
			}
		}
		return mathInt("(ssum " + row + " " + v.L[slOff] + " " + v.L[slLen] + ")")
	case "wrapint", "wrapint32", "wrapuint64":
		// the machine value of an integer expression: what Go's int / int32 / uint64
		// arithmetic yields for it (specification integers are mathematical otherwise)
		v := e.evalSpec(x.Args[0], ctx)
		switch x.Fn {
		case "wrapint":
			return mathInt("(wrapms64 " + v.L[0] + ")")
		case "wrapint32":
			return mathInt("(wrapms32 " + v.L[0] + ")")
		}
		return mathInt("(mod " + v.L[0] + " 18446744073709551616)")
	case "heldany":
		// heldany(T.mu): the mutex mu of the (single) T instance is held by this goroutine
		// (type-level flag used by `guarded ... by (T).mu`)
		if sel, ok := x.Args[0].(SSel); ok {
			if id, ok := sel.X.(SIdent); ok {
				pkg := ctx.pkg
				if pkg == "" && e.fn != nil && e.fn.Pkg != nil {
					pkg = e.fn.Pkg.Pkg.Path()
				}
				st := ctx.st
				if ctx.inOld {
					st = ctx.old
				}
				if t, ok := st.ghost["b:anyheld:"+pkg+"."+id.Name+"."+sel.Name]; ok {
					return mathBool(t)
				}
				return mathBool("false")
			}
		}
		panic(encErr("heldany(T.mu): T must be a type name of this package"))
	case "blk":
		// the object (backing array / map / pointee) a slice, map or pointer value refers to
		v := e.evalSpec(x.Args[0], ctx)
		return mathInt(v.L[0])
	case "float32", "float64":
		v := e.evalSpec(x.Args[0], ctx)
		T := types.Typ[types.Float32]
		if x.Fn == "float64" {
			T = types.Typ[types.Float64]
		}
		if v.T != nil && isFloat(v.T) {
			if intBitsFloat(v.T) == intBitsFloat(T) {
				return &Val{T: T, L: v.L}
			}
			return &Val{T: T, L: []string{"(fconv" + fmt.Sprint(intBitsFloat(T)) + " " + v.L[0] + ")"}}
		}
		return &Val{T: T, L: []string{"(i2f " + v.L[0] + ")"}}
	case "fresh":
		v := e.evalSpec(x.Args[0], ctx)
		return mathBool("(> " + v.L[0] + " " + ctx.old.alloc + ")")
	case "tagis":
		// tagis(x, "typename"): dynamic type test on an interface value
		v := e.evalSpec(x.Args[0], ctx)
		tn := x.Args[1].(SLit).Val
		T := e.resolveTypeName(tn, ctx.pkg)
		if T == nil {
			e.fail("unknown type %s", tn)
		}
		return mathBool(fmt.Sprintf("(= (itag %s) %d)", v.L[0], e.tagOf(T)))
	case "unbox":
		// unbox(x, "typename"): the value held by interface value x read as that type
		// (meaningful when tagis(x, "typename"); same terms as a type assertion)
		v := e.evalSpec(x.Args[0], ctx)
		tn := x.Args[1].(SLit).Val
		T := e.resolveTypeName(tn, ctx.pkg)
		if T == nil {
			e.fail("unknown type %s", tn)
		}
		if _, isIface := T.Underlying().(*types.Interface); isIface {
			e.fail("unbox: %s is an interface type", tn)
		}
		out := &Val{T: T}
		for i := range typeLeaves(T) {
			out.L = append(out.L, "("+e.unboxName(T, i)+" "+v.L[0]+")")
		}
		return out
	case "int":
		return e.evalSpec(x.Args[0], ctx)
	case "binsize":
		// bytes encoding/binary writes for a value passed as `any`
		v := e.evalSpec(x.Args[0], ctx)
		if v.Box != nil && v.Box.T != nil {
			switch u := v.Box.T.Underlying().(type) {
			case *types.Basic:
				if u.Info()&types.IsInteger != 0 {
					return mathInt(fmt.Sprint(intBits(v.Box.T) / 8))
				}
				if u.Info()&types.IsBoolean != 0 {
					return mathInt("1")
				}
				if u.Kind() == types.Float32 {
					return mathInt("4")
				}
				if u.Kind() == types.Float64 {
					return mathInt("8")
				}
			case *types.Slice:
				if b, ok := u.Elem().Underlying().(*types.Basic); ok {
					sz := 0
					switch {
					case b.Info()&types.IsInteger != 0:
						sz = intBits(u.Elem()) / 8
					case b.Info()&types.IsBoolean != 0:
						sz = 1
					case b.Kind() == types.Float32:
						sz = 4
					case b.Kind() == types.Float64:
						sz = 8
					}
					if sz > 0 {
						return mathInt(fmt.Sprintf("(* %d %s)", sz, v.Box.L[slLen]))
					}
				}
			}
		}
		e.declareFun("binsize_u", []string{"Int"}, "Int")
		t := "(binsize_u " + v.L[0] + ")"
		return mathInt(t)
	}
	// spec function?
	if sf, ok := e.DB.Specs[x.Fn]; ok {
		return e.callSpecFunc(sf, x, ctx)
	}
	// application of a function-typed value (e.g. the predicate parameter of
	// slices.DeleteFunc): if it is a closure literal whose contract defines its result
	// (`ensures result <==> E` / `result == E`), the application is E
	if x.Recv == nil {
		var fv *Val
		if v, ok := ctx.bound[x.Fn]; ok {
			fv = v
		} else if en, ok := ctx.env[x.Fn]; ok {
			fv = e.entryValue(en, ctx)
		} else if ctx.resolve != nil {
			if en, ok := ctx.resolve(x.Fn); ok {
				fv = e.entryValue(en, ctx)
			}
		}
		if fv != nil && fv.Closure != nil && fv.Closure.Fn != nil {
			cf := fv.Closure.Fn
			if cc := e.DB.Funcs[FuncKey(cf)]; cc != nil {
				for _, en := range cc.Ensures {
					b, ok := en.E.(SBinary)
					if !ok || (b.Op != "<==>" && b.Op != "==") {
						continue
					}
					if id, ok := b.X.(SIdent); !ok || id.Name != "result" {
						continue
					}
					env := map[string]envEntry{}
					for i, p := range cf.Params {
						if i < len(x.Args) {
							env[p.Name()] = envEntry{V: e.evalSpec(x.Args[i], ctx)}
						}
					}
					for i, v := range cf.FreeVars {
						if i < len(fv.Closure.Bindings) {
							_, isPtr := v.Type().Underlying().(*types.Pointer)
							env[v.Name()] = envEntry{V: fv.Closure.Bindings[i], IsAddr: isPtr}
						}
					}
					c2 := &specCtx{env: env, st: ctx.st, old: ctx.old, pkg: cc.Pkg, bound: ctx.bound, inOld: ctx.inOld}
					return e.evalSpec(b.Y, c2)
				}
			}
			e.fail("function value %s applied in a specification: its closure %s needs a contract with `ensures result <==> <expr>`", x.Fn, ShortKey(FuncKey(cf)))
		}
	}
	// pure program function used in a spec: uninterpreted function of its arguments
	return e.callPureInSpec(x, ctx)
}

// specSortOf maps a spec-level type name to SMT sorts (slices expand to row+off+len).
func (e *Enc) specParamSorts(t string, pkg string) ([]string, string) {
	switch t {
	case "int":
		return []string{"Int"}, "int"
	case "bool":
		return []string{"Bool"}, "bool"
	case "string":
		return []string{"Int"}, "string"
	}
	if strings.HasPrefix(t, "[]") {
		el := e.resolveTypeName(t[2:], pkg)
		if el != nil {
			lv := typeLeaves(el)
			if len(lv) == 1 && lv[0].Dims == 0 {
				return []string{"(Array Int " + lv[0].Sort + ")", "Int", "Int"}, "slice"
			}
		}
		e.fail("spec function parameter type %s not supported", t)
	}
	T := e.resolveTypeName(t, pkg)
	if T != nil {
		lv := typeLeaves(T)
		if len(lv) == 1 {
			return []string{lv[0].Sort}, "scalar"
		}
	}
	e.fail("spec function parameter type %s not supported", t)
	return nil, ""
}

func (e *Enc) callSpecFunc(sf *SpecFunc, x SCall, ctx *specCtx) *Val {
	e.declareSpecFunc(sf)
	if len(x.Args) != len(sf.Params) {
		e.fail("spec function %s expects %d arguments", sf.Name, len(sf.Params))
	}
	var args []string
	for i, p := range sf.Params {
		v := e.evalSpec(x.Args[i], ctx)
		_, kind := e.specParamSorts(p.Type, sf.Pkg)
		if kind == "slice" {
			sl, ok := v.T.Underlying().(*types.Slice)
			if !ok {
				e.fail("argument %d of %s must be a slice", i, sf.Name)
			}
			st := ctx.st
			if ctx.inOld {
				st = ctx.old
			}
			row := e.sliceRow(st, v, sl.Elem())
			args = append(args, row, v.L[slOff], v.L[slLen])
		} else {
			args = append(args, v.L[0])
		}
	}
	t := sApp(smtIdent("spec:"+sf.Name), args...)
	switch sf.Ret {
	case "bool":
		return mathBool(t)
	case "int":
		return mathInt(t)
	case "string":
		return &Val{T: types.Typ[types.String], L: []string{t}}
	}
	T := e.resolveTypeName(sf.Ret, sf.Pkg)
	if T == nil {
		e.fail("unknown result type %s of spec function %s", sf.Ret, sf.Name)
	}
	return &Val{T: T, L: []string{t}}
}

func (e *Enc) declareSpecFunc(sf *SpecFunc) {
	if e.specDecl[sf.Name] {
		return
	}
	e.specDecl[sf.Name] = true
	var sorts []string
	var formals []string
	bound := map[string]*Val{}
	for _, p := range sf.Params {
		ss, kind := e.specParamSorts(p.Type, sf.Pkg)
		sorts = append(sorts, ss...)
		switch kind {
		case "slice":
			row, off, ln := smtIdent(p.Name+"?row"), smtIdent(p.Name+"?off"), smtIdent(p.Name+"?len")
			formals = append(formals, "("+row+" "+ss[0]+")", "("+off+" Int)", "("+ln+" Int)")
			el := e.resolveTypeName(p.Type[2:], sf.Pkg)
			bound[p.Name] = &Val{T: types.NewSlice(el), L: []string{"?row:" + row, off, ln, ln}}
		case "int":
			n := smtIdent(p.Name + "?")
			formals = append(formals, "("+n+" Int)")
			bound[p.Name] = mathInt(n)
		case "bool":
			n := smtIdent(p.Name + "?")
			formals = append(formals, "("+n+" Bool)")
			bound[p.Name] = mathBool(n)
		case "string":
			n := smtIdent(p.Name + "?")
			formals = append(formals, "("+n+" Int)")
			bound[p.Name] = &Val{T: types.Typ[types.String], L: []string{n}}
		default:
			n := smtIdent(p.Name + "?")
			formals = append(formals, "("+n+" "+ss[0]+")")
			bound[p.Name] = &Val{T: e.resolveTypeName(p.Type, sf.Pkg), L: []string{n}}
		}
	}
	retSort := "Int"
	if sf.Ret == "bool" {
		retSort = "Bool"
	} else if T := e.resolveTypeName(sf.Ret, sf.Pkg); T != nil {
		if lv := typeLeaves(T); len(lv) == 1 {
			retSort = lv[0].Sort
		}
	}
	name := smtIdent("spec:" + sf.Name)
	if sf.Body == nil {
		e.declSet[name] = true
		e.decls = append(e.decls, "(declare-fun "+name+" ("+strings.Join(sorts, " ")+") "+retSort+")")
		return
	}
	// declare callees first
	for _, callee := range specCallees(sf.Body) {
		if other, ok := e.DB.Specs[callee]; ok && other != sf {
			e.declareSpecFunc(other)
		}
	}
	ctx := &specCtx{env: map[string]envEntry{}, st: e.entry, old: e.entry, pkg: sf.Pkg, bound: bound}
	body := e.evalSpecInFunc(sf.Body, ctx)
	kw := "define-fun"
	for _, c := range specCallees(sf.Body) {
		if c == sf.Name {
			kw = "define-fun-rec"
		}
	}
	e.declSet[name] = true
	if sf.Opaque && kw == "define-fun" {
		// Boogie-style function axiom: applications stay atomic terms (usable as
		// triggers, framed by congruence); the definition unfolds at ground applications
		e.decls = append(e.decls, "(declare-fun "+name+" ("+strings.Join(sorts, " ")+") "+retSort+")")
		var names []string
		for _, f := range formals {
			names = append(names, strings.Fields(strings.TrimPrefix(f, "("))[0])
		}
		app := sApp(name, names...)
		if len(formals) == 0 {
			e.assume("(= " + app + " " + body.L[0] + ")")
		} else {
			e.assume("(forall (" + strings.Join(formals, " ") + ") (! (= " + app + " " + body.L[0] + ") :pattern (" + app + ")))")
		}
		return
	}
	e.decls = append(e.decls, "("+kw+" "+name+" ("+strings.Join(formals, " ")+") "+retSort+" "+body.L[0]+")")
}

// evalSpecInFunc evaluates a spec function body, where slice parameters are rows.
func (e *Enc) evalSpecInFunc(x SExpr, ctx *specCtx) *Val {
	return e.evalSpec(rowRewrite{x}.rewrite(ctx), ctx)
}

type rowRewrite struct{ x SExpr }

func (r rowRewrite) rewrite(ctx *specCtx) SExpr { return r.x }

func specCallees(x SExpr) []string {
	set := map[string]bool{}
	var walk func(x SExpr)
	walk = func(x SExpr) {
		switch x := x.(type) {
		case SCall:
			set[x.Fn] = true
			if x.Recv != nil {
				walk(x.Recv)
			}
			for _, a := range x.Args {
				walk(a)
			}
		case SSel:
			walk(x.X)
		case SIndex:
			walk(x.X)
			walk(x.I)
		case SSlice:
			walk(x.X)
			if x.Lo != nil {
				walk(x.Lo)
			}
			if x.Hi != nil {
				walk(x.Hi)
			}
		case SUnary:
			walk(x.X)
		case SBinary:
			walk(x.X)
			walk(x.Y)
		case SQuant:
			walk(x.Body)
		}
	}
	walk(x)
	var out []string
	for k := range set {
		out = append(out, k)
	}
	sort.Strings(out)
	return out
}

// callPureInSpec: a program function mentioned in a spec, e.g. f.KV().BlockCount()
// or envconfig.GpuOverhead(): an uninterpreted function of its (scalar) arguments.
func (e *Enc) callPureInSpec(x SCall, ctx *specCtx) *Val {
	var args []*Val
	var fo *types.Func
	if x.Recv != nil && strings.HasPrefix(x.Fn, ".") {
		recv := e.evalSpec(x.Recv, ctx)
		args = append(args, recv)
		if recv.T == nil {
			e.fail("method call on untyped value")
		}
		m := strings.TrimPrefix(x.Fn, ".")
		// promoted methods: walk the embedded fields first
		var obj types.Object
		var index []int
		for _, tp := range e.candidatePkgs(ctx.pkg, recv.T) {
			obj, index, _ = types.LookupFieldOrMethod(recv.T, true, tp, m)
			if obj != nil {
				break
			}
		}
		f2, ok := obj.(*types.Func)
		if !ok {
			e.fail("no method %s on %v", m, recv.T)
		}
		fo = f2
		cur := recv
		for _, fi := range index[:len(index)-1] {
			if pt, ok := cur.T.Underlying().(*types.Pointer); ok {
				stt := pt.Elem().Underlying().(*types.Struct)
				p := &Val{T: types.NewPointer(stt.Field(fi).Type()), L: cur.L, Root: cur.Root, Path: append(append([]Step{}, cur.Path...), Step{Field: fi})}
				if p.Root == nil {
					p.Root = ptrRoot(pt.Elem())
				}
				cur = e.loadSpec(ctx, p, stt.Field(fi).Type())
			} else {
				cur = e.fieldOf(cur, fi)
			}
		}
		// value receiver reached through a pointer: load it
		if sigR := fo.Type().(*types.Signature).Recv(); sigR != nil {
			if _, wantPtr := sigR.Type().(*types.Pointer); !wantPtr {
				if pt, isPtr := cur.T.Underlying().(*types.Pointer); isPtr && !types.IsInterface(sigR.Type()) {
					cur = e.loadSpec(ctx, e.annotate(cur), pt.Elem())
				}
			}
		}
		args[0] = cur
	} else if x.Recv != nil {
		id := x.Recv.(SIdent)
		_, bound := ctx.bound[id.Name]
		_, inEnv := ctx.env[id.Name]
		resolved := false
		if !bound && !inEnv && ctx.resolve != nil {
			_, resolved = ctx.resolve(id.Name)
		}
		if bound || inEnv || resolved {
			return e.callPureInSpec(SCall{Fn: "." + x.Fn[strings.Index(x.Fn, ".")+1:], Recv: x.Recv, Args: x.Args}, ctx)
		}
		fnName := x.Fn[strings.Index(x.Fn, ".")+1:]
		obj := e.lookupPkgObject(ctx.pkg, id.Name, fnName)
		if vo, ok := obj.(*types.Var); ok {
			// package-level variable of function type
			if sig, ok := vo.Type().Underlying().(*types.Signature); ok {
				return e.pureVarCall(vo.Pkg().Path()+"."+vo.Name(), sig, x, ctx)
			}
		}
		f2, ok := obj.(*types.Func)
		if !ok {
			e.fail("unknown function %s in spec", x.Fn)
		}
		fo = f2
	} else {
		obj := e.lookupPkgObject(ctx.pkg, "", x.Fn)
		f2, ok := obj.(*types.Func)
		if !ok {
			e.fail("unknown function %s in spec", x.Fn)
		}
		fo = f2
	}
	sig := fo.Type().(*types.Signature)
	retT := sigRet(sig)
	if retT == nil {
		e.fail("function %s has no result", x.Fn)
	}
	for i, a := range x.Args {
		v := e.evalSpec(a, ctx)
		if i < sig.Params().Len() {
			pt := sig.Params().At(i).Type()
			if _, isIface := pt.Underlying().(*types.Interface); isIface && v.T != nil {
				if _, already := v.T.Underlying().(*types.Interface); !already {
					// inline box term: no fresh constant, no side assertions (the
					// argument may mention bound variables)
					v = &Val{T: types.NewInterfaceType(nil, nil), L: []string{sApp(e.boxName(v.T), v.L...)}}
				}
			}
		}
		args = append(args, v)
	}
	// typed arguments: untyped spec integers take the parameter type
	key := funcObjKey(fo)
	ctr := e.DB.Funcs[key]
	if ctr == nil || !ctr.Pure {
		e.fail("function %s used in a specification needs a contract declared pure", ShortKey(key))
	}
	ctr.UsedExtern = true
	st := ctx.st
	if ctx.inOld {
		st = ctx.old
	}
	return e.pureApp(e.pureName(ctr, key), e.pureArgs(ctr, args, st), retT)
}

func isPointerType(t types.Type) bool {
	_, ok := t.Underlying().(*types.Pointer)
	return ok
}

func (e *Enc) pureVarCall(key string, sig *types.Signature, x SCall, ctx *specCtx) *Val {
	var args []*Val
	for _, a := range x.Args {
		args = append(args, e.evalSpec(a, ctx))
	}
	ctr := e.DB.Funcs[key]
	if ctr == nil || !ctr.Pure {
		e.fail("function variable %s used in a specification needs a contract declared pure", ShortKey(key))
	}
	ctr.UsedExtern = true
	st := ctx.st
	if ctx.inOld {
		st = ctx.old
	}
	return e.pureApp(e.pureName(ctr, key), e.pureArgs(ctr, args, st), sigRet(sig))
}

func (e *Enc) candidatePkgs(pkg string, T types.Type) []*types.Package {
	var out []*types.Package
	if p, ok := e.P.Pkgs[pkg]; ok {
		out = append(out, p.Types)
	}
	t := T
	if pt, ok := t.Underlying().(*types.Pointer); ok {
		t = pt.Elem()
	}
	if n, ok := types.Unalias(t).(*types.Named); ok && n.Obj().Pkg() != nil {
		out = append(out, n.Obj().Pkg())
	}
	if e.fn != nil && e.fn.Pkg != nil {
		out = append(out, e.fn.Pkg.Pkg)
	}
	return out
}

func lookupMethod(T types.Type, m string) *types.Func {
	for _, t := range []types.Type{T, types.NewPointer(T)} {
		ms := types.NewMethodSet(t)
		for i := 0; i < ms.Len(); i++ {
			if ms.At(i).Obj().Name() == m {
				if f, ok := ms.At(i).Obj().(*types.Func); ok {
					return f
				}
			}
		}
	}
	return nil
}

// funcObjKey mirrors FuncKey for a types.Func.
func funcObjKey(fo *types.Func) string {
	sig := fo.Type().(*types.Signature)
	pkg := ""
	if fo.Pkg() != nil {
		pkg = fo.Pkg().Path()
	}
	if r := sig.Recv(); r != nil {
		t := r.Type()
		ptr := false
		if p, ok := t.(*types.Pointer); ok {
			t, ptr = p.Elem(), true
		}
		if _, isIface := t.Underlying().(*types.Interface); isIface {
			return ifaceMethodKey(t, fo.Name())
		}
		if ptr {
			return pkg + ".(*" + typeShort(t) + ")." + fo.Name()
		}
		return pkg + ".(" + typeShort(t) + ")." + fo.Name()
	}
	return pkg + "." + fo.Name()
}

func sigRet(sig *types.Signature) types.Type {
	switch sig.Results().Len() {
	case 0:
		return nil
	case 1:
		return sig.Results().At(0).Type()
	}
	return sig.Results()
}

// pureApp applies the uninterpreted function standing for a pure program function.
func (e *Enc) pureApp(name string, args []*Val, retT types.Type) *Val {
	var sorts, terms []string
	for _, a := range args {
		if a.T != nil {
			for i, lf := range typeLeaves(a.T) {
				sorts = append(sorts, arraySort(lf.Sort, lf.Dims))
				terms = append(terms, a.L[i])
			}
		} else {
			for _, l := range a.L {
				if a.Math == "bool" {
					sorts = append(sorts, "Bool")
				} else {
					sorts = append(sorts, "Int")
				}
				terms = append(terms, l)
			}
		}
	}
	out := &Val{T: retT}
	for i, lf := range typeLeaves(retT) {
		fn := smtIdent(fmt.Sprintf("pure:%s:%d", name, i))
		e.declareFun(fn, sorts, arraySort(lf.Sort, lf.Dims))
		out.L = append(out.L, sApp(fn, terms...))
	}
	return e.annotate(out)
}

// evalDesignator interprets a modifies designator.
func (e *Enc) evalDesignator(x SExpr, ctx *specCtx) *designator {
	switch x := x.(type) {
	case SSel:
		if strings.HasPrefix(x.Name, "ghost_") {
			base := e.evalSpec(x.X, ctx)
			hk, idx := e.ghostLoc(x.Name, base)
			return &designator{kind: "ghostloc", hk: hk, idx: idx}
		}
		base := e.evalSpec(x.X, ctx)
		if base.T == nil {
			return nil
		}
		pt, ok := base.T.Underlying().(*types.Pointer)
		if !ok {
			return nil
		}
		stt, ok := pt.Elem().Underlying().(*types.Struct)
		if !ok {
			return nil
		}
		path, ft := findField(stt, x.Name)
		if path == nil {
			e.fail("no field %s", x.Name)
		}
		p := &Val{T: types.NewPointer(ft), L: base.L, Root: base.Root, Path: append([]Step{}, base.Path...)}
		if p.Root == nil {
			p.Root = ptrRoot(pt.Elem())
		}
		for _, f := range path {
			p.Path = append(p.Path, Step{Field: f})
		}
		if _, isMap := ft.Underlying().(*types.Map); isMap {
			// the map object itself (its entries), plus the field
			mv := e.loadSpec(ctx, p, ft)
			return &designator{kind: "map", T: ft, ref: mv.L[0]}
		}
		return &designator{kind: "loc", ptr: p, T: ft}
	case SUnary:
		if x.Op == "*" {
			v := e.evalSpec(x.X, ctx)
			pt, ok := v.T.Underlying().(*types.Pointer)
			if !ok {
				return nil
			}
			return &designator{kind: "loc", ptr: e.annotate(v), T: pt.Elem()}
		}
	case SIndex:
		if sel, ok := x.X.(SSel); ok && strings.HasPrefix(sel.Name, "ghost_") {
			hk, idx := e.ghostArrayLoc(sel, ctx)
			if id, ok := x.I.(SIdent); ok && id.Name == "all" {
				return &designator{kind: "ghostarr", hk: hk, idx: idx}
			}
			i := e.evalSpec(x.I, ctx)
			return &designator{kind: "ghostloc", hk: hk, idx: append(append([]string{}, idx...), i.L[0])}
		}
		// s[*] is written s[all]
		if id, ok := x.I.(SIdent); ok && id.Name == "all" {
			s := e.evalSpec(x.X, ctx)
			if sl, ok := s.T.Underlying().(*types.Slice); ok {
				return &designator{kind: "row", slice: s, T: sl.Elem()}
			}
			if mt, ok := s.T.Underlying().(*types.Map); ok {
				return &designator{kind: "map", T: mt, ref: s.L[0]}
			}
			return nil
		}
		s := e.evalSpec(x.X, ctx)
		i := e.evalSpec(x.I, ctx)
		if sl, ok := s.T.Underlying().(*types.Slice); ok {
			p := &Val{T: types.NewPointer(sl.Elem()), L: []string{s.L[slRef], e.simpAdd(s.L[slOff], i.L[0])}, Root: sl.Elem()}
			return &designator{kind: "loc", ptr: p, T: sl.Elem()}
		}
	case SIdent:
		if strings.HasPrefix(x.Name, "ghost_") {
			return &designator{kind: "ghost", ghost: "g:" + x.Name}
		}
	case SCall:
		if x.Fn == "anyrow" && len(x.Args) == 1 {
			// anyrow(s): every element of every backing array with the element type of
			// the slice expression s (coarse: for slices reached through a loop-dependent
			// index, e.g. c.cells[i].sequences)
			v := e.evalSpec(x.Args[0], ctx)
			if v.T != nil {
				if sl, ok := v.T.Underlying().(*types.Slice); ok {
					return &designator{kind: "anyrow", T: sl.Elem()}
				}
			}
			e.fail("anyrow(s): s must be a slice expression")
		}
		if x.Fn == "boxed" && len(x.Args) == 1 {
			// the object pointed to by the pointer held in an interface value
			v := e.evalSpec(x.Args[0], ctx)
			if v.Box == nil {
				return &designator{kind: "all"}
			}
			pt, ok := v.Box.T.Underlying().(*types.Pointer)
			if !ok {
				return &designator{kind: "none"}
			}
			return &designator{kind: "loc", ptr: e.annotate(v.Box), T: pt.Elem(), ghosts: true}
		}
	}
	return nil
}
