package main

import (
	"fmt"
	"sort"
	"os"
	"path/filepath"
	"regexp"
	"strconv"
	"strings"
)

type Clause struct {
	Src  string
	E    SExpr
	File string
	Line int
}

// GhostAt: ghost assignment executed at a program point (ghost code).
type GhostAt struct {
	SelKind string // entry | call | return
	Callee  string
	Ord     int
	Before  bool
	Var     string
	C       Clause
}

type AssertAt struct {
	Assume bool // assume-at: an explicit, listed assumption (no obligation)
	// Selector: "call <callee-substring> #k" or "return #k" or "store #k"
	SelKind string // call | return | send
	Callee  string
	Ord     int // 1-based ordinal among matching sites in source order; 0 = all
	Before  bool
	C       Clause
}

type Contract struct {
	Key        string // full function key
	Pkg        string // package path of the contract file
	Extern     bool
	Pure       bool
	Requires   []Clause
	Ensures    []Clause
	Modifies   []Clause // designator expressions; nil + !ModAll = modifies nothing (if HasMod) else default
	HasMod     bool
	ModAll     bool
	LoopInv    map[int][]Clause
	LoopDec    map[int]Clause
	AssertAts  []AssertAt
	GhostAts   []GhostAt
	Opts       map[string]string
	Readonly   []string
	Reads      []string // for pure: heap roots the result depends on; ["none"] = argument values only
	HasReads   bool
	File       string
	Line       int
	UsedExtern bool
}

type SpecFunc struct {
	Name    string
	Params  []SVar
	Ret     string
	Body    SExpr // nil: uninterpreted
	BodySrc string
	Pkg     string
	Dec     SExpr
	Opaque  bool // written with ":=": declare-fun plus a definitional axiom triggered by applications
}

type Lemma struct {
	Name     string
	Params   []SVar
	Requires []Clause
	Ensures  []Clause
	Induct   string
	Pkg      string
	Uses     []string
}

type Axiom struct {
	C   Clause
	Pkg string
}

// Guard: a struct field that may only be accessed while one of the listed mutex fields
// of the same object is held (lock discipline as a contract).
type Guard struct {
	Type    string // struct type name, local to the package (e.g. runnerRef)
	Pkg     string
	Field   string
	Mutexes []string
}

// LockOrder: `lockorder (T1).mu1 < (T2).mu2` - a goroutine that acquires T1.mu1 must not hold any
// T2.mu2 (of an object other goroutines can reach); checked as obligation lockorder.N at every Lock of T1.mu1.
type LockOrder struct {
	Pkg, First, Second string // First/Second: "T.mu"
	Line              int
}

type LockInv struct {
	Type, Pkg, Mutex string
	C                Clause
}

type ContractDB struct {
	Dups []string
	Guards   map[string]*Guard // key: pkgpath.Type.field
	LockInvs map[string]*LockInv // key: pkgpath.Type.mutex
	LockOrders []LockOrder
	GhostFields map[string]bool
	Funcs   map[string]*Contract
	Specs   map[string]*SpecFunc
	Lemmas  map[string]*Lemma
	Axioms  []Axiom
	Sources []string // files read
}

func NewContractDB() *ContractDB {
	return &ContractDB{Funcs: map[string]*Contract{}, Specs: map[string]*SpecFunc{}, Lemmas: map[string]*Lemma{}}
}

var clauseKeywords = map[string]bool{
	"func": true, "extern": true, "spec": true, "axiom": true, "lemma": true,
	"requires": true, "ensures": true, "modifies": true, "loop": true, "assert-at": true, "assume-at": true, "ghost-at": true,
	"guarded": true, "lockinv": true, "lockorder": true, "pure": true, "opt": true, "readonly": true, "decreases": true, "induction": true, "uses": true,
}

// LoadContractFile parses one comment-only contract file. pkgPath is the import
// path of the package the file belongs to.
func (db *ContractDB) LoadContractFile(path, pkgPath string) error {
	data, err := os.ReadFile(path)
	if err != nil {
		return err
	}
	db.Sources = append(db.Sources, path)
	if db.GhostFields == nil {
		db.GhostFields = map[string]bool{}
	}
	for _, m := range regexp.MustCompile(`\.(ghost_[A-Za-z0-9_]+)`).FindAllStringSubmatch(string(data), -1) {
		db.GhostFields[m[1]] = true
	}
	type rawClause struct {
		text string
		line int
	}
	var clauses []rawClause
	for i, ln := range strings.Split(string(data), "\n") {
		t := strings.TrimSpace(ln)
		if !strings.HasPrefix(t, "//@") {
			continue
		}
		body := strings.TrimSpace(strings.TrimPrefix(t, "//@"))
		if body == "" || strings.HasPrefix(body, "#") {
			continue
		}
		// strip trailing comment "  -- ..."
		if k := strings.Index(body, " -- "); k >= 0 {
			body = strings.TrimSpace(body[:k])
		}
		first := body
		if k := strings.IndexAny(body, " \t"); k >= 0 {
			first = body[:k]
		}
		if clauseKeywords[first] {
			clauses = append(clauses, rawClause{body, i + 1})
		} else if len(clauses) > 0 {
			clauses[len(clauses)-1].text += " " + body
		} else {
			return fmt.Errorf("%s:%d: continuation without clause", path, i+1)
		}
	}
	var cur *Contract
	var curLemma *Lemma
	var curSpec *SpecFunc
	mk := func(src string, line int) (Clause, error) {
		e, err := ParseSpec(src)
		if err != nil {
			return Clause{}, fmt.Errorf("%s:%d: %v", path, line, err)
		}
		return Clause{Src: src, E: e, File: path, Line: line}, nil
	}
	for _, rc := range clauses {
		kw, rest := splitWord(rc.text)
		switch kw {
		case "extern", "func":
			ext := kw == "extern"
			if ext {
				w, r := splitWord(rest)
				if w != "func" {
					return fmt.Errorf("%s:%d: expected 'extern func'", path, rc.line)
				}
				rest = r
			}
			name := strings.TrimSpace(rest)
			key := name
			if ext && isQualifiedName(name) {
				key = normalizeExternKey(name)
			} else {
				key = pkgPath + "." + name
			}
			cur = &Contract{Key: key, Pkg: pkgPath, Extern: ext, LoopInv: map[int][]Clause{}, LoopDec: map[int]Clause{}, Opts: map[string]string{}, File: path, Line: rc.line}
			if old, dup := db.Funcs[key]; dup {
				if !old.Extern && !ext {
					// a second block for the same function (another property's contract file):
					// its clauses are appended to the first block (files are loaded in sorted
					// order, so the clause numbering is stable); options set later win
					db.Dups = append(db.Dups, fmt.Sprintf("%s: contract continued at %s:%d (first block at %s:%d)", key, path, rc.line, old.File, old.Line))
					cur = old
					curLemma, curSpec = nil, nil
					continue
				}
				if old.Extern && !ext {
					// a verified contract replaces an extern stub written elsewhere
					db.Dups = append(db.Dups, fmt.Sprintf("%s: extern stub at %s:%d replaced by the contract at %s:%d", key, old.File, old.Line, path, rc.line))
					db.Funcs[key] = cur
					curLemma, curSpec = nil, nil
					continue
				}
				// the same library function declared by two contract files: the first
				// declaration (files are loaded in sorted order) is the one in force;
				// the clauses of this one are parsed but not used
				db.Dups = append(db.Dups, fmt.Sprintf("%s declared again at %s:%d (in force: %s:%d)", key, path, rc.line, old.File, old.Line))
			} else {
				db.Funcs[key] = cur
			}
			curLemma, curSpec = nil, nil
		case "requires", "ensures":
			c, err := mk(rest, rc.line)
			if err != nil {
				return err
			}
			if curLemma != nil {
				if kw == "requires" {
					curLemma.Requires = append(curLemma.Requires, c)
				} else {
					curLemma.Ensures = append(curLemma.Ensures, c)
				}
			} else if cur != nil {
				if kw == "requires" {
					cur.Requires = append(cur.Requires, c)
				} else {
					cur.Ensures = append(cur.Ensures, c)
				}
			} else {
				return fmt.Errorf("%s:%d: clause outside func/lemma", path, rc.line)
			}
		case "modifies":
			if cur == nil {
				return fmt.Errorf("%s:%d: modifies outside func", path, rc.line)
			}
			cur.HasMod = true
			r := strings.TrimSpace(rest)
			if r == "*" {
				cur.ModAll = true
			} else if r != "nothing" {
				for _, part := range splitTopLevel(r, ',') {
					c, err := mk(part, rc.line)
					if err != nil {
						return err
					}
					cur.Modifies = append(cur.Modifies, c)
				}
			}
		case "pure":
			if cur == nil {
				return fmt.Errorf("%s:%d: pure outside func", path, rc.line)
			}
			cur.Pure = true
			cur.HasMod = true
			if w, r := splitWord(rest); w == "reads" {
				cur.HasReads = true
				for _, x := range strings.Split(r, ",") {
					if x = strings.TrimSpace(x); x != "" {
						cur.Reads = append(cur.Reads, x)
					}
				}
			}
		case "readonly":
			if cur != nil {
				cur.Readonly = append(cur.Readonly, strings.Fields(rest)...)
			}
		case "opt":
			if cur == nil {
				return fmt.Errorf("%s:%d: opt outside func", path, rc.line)
			}
			k, v := splitWord(rest)
			cur.Opts[k] = strings.TrimSpace(v)
		case "loop":
			if cur == nil {
				return fmt.Errorf("%s:%d: loop outside func", path, rc.line)
			}
			ns, r := splitWord(rest)
			n, err := strconv.Atoi(ns)
			if err != nil {
				return fmt.Errorf("%s:%d: bad loop ordinal %q", path, rc.line, ns)
			}
			k2, r2 := splitWord(r)
			c, err := mk(r2, rc.line)
			if err != nil {
				return err
			}
			switch k2 {
			case "invariant":
				cur.LoopInv[n] = append(cur.LoopInv[n], c)
			case "decreases":
				cur.LoopDec[n] = c
			default:
				return fmt.Errorf("%s:%d: expected invariant|decreases", path, rc.line)
			}
		case "assert-at", "assume-at", "ghost-at":
			if cur == nil {
				return fmt.Errorf("%s:%d: %s outside func", path, rc.line, kw)
			}
			// <kw> [before|after] call <callee> #k : expr | <kw> return #k : expr | ghost-at entry : g := e
			idx := strings.Index(rest, " : ")
			if idx < 0 {
				return fmt.Errorf("%s:%d: %s needs ' : '", path, rc.line, kw)
			}
			sel, ex := strings.Fields(rest[:idx]), rest[idx+3:]
			aa := AssertAt{Before: true, Assume: kw == "assume-at"}
			for len(sel) > 0 {
				switch {
				case sel[0] == "before":
					aa.Before = true
				case sel[0] == "after":
					aa.Before = false
				case sel[0] == "call" || sel[0] == "return" || sel[0] == "send" || sel[0] == "entry" || sel[0] == "store":
					aa.SelKind = sel[0]
				case strings.HasPrefix(sel[0], "#"):
					aa.Ord, _ = strconv.Atoi(sel[0][1:])
				default:
					aa.Callee = sel[0]
				}
				sel = sel[1:]
			}
			if kw == "ghost-at" {
				k := strings.Index(ex, ":=")
				if k < 0 {
					return fmt.Errorf("%s:%d: ghost-at needs 'ghost_x := expr'", path, rc.line)
				}
				v := strings.TrimSpace(ex[:k])
				c, err := mk(strings.TrimSpace(ex[k+2:]), rc.line)
				if err != nil {
					return err
				}
				cur.GhostAts = append(cur.GhostAts, GhostAt{SelKind: aa.SelKind, Callee: aa.Callee, Ord: aa.Ord, Before: aa.Before, Var: v, C: c})
				break
			}
			c, err := mk(ex, rc.line)
			if err != nil {
				return err
			}
			aa.C = c
			cur.AssertAts = append(cur.AssertAts, aa)
		case "spec":
			w, r := splitWord(rest)
			if w != "func" {
				return fmt.Errorf("%s:%d: expected 'spec func'", path, rc.line)
			}
			sf, err := parseSpecFuncDecl(r)
			if err != nil {
				return fmt.Errorf("%s:%d: %v", path, rc.line, err)
			}
			sf.Pkg = pkgPath
			if _, dup := db.Specs[sf.Name]; dup {
				return fmt.Errorf("%s:%d: duplicate spec func %s", path, rc.line, sf.Name)
			}
			db.Specs[sf.Name] = sf
			cur, curLemma, curSpec = nil, nil, sf
		case "decreases":
			if curSpec != nil {
				e, err := ParseSpec(rest)
				if err != nil {
					return fmt.Errorf("%s:%d: %v", path, rc.line, err)
				}
				curSpec.Dec = e
			}
		case "guarded":
			// guarded (T).f1, f2 by mu1 | mu2
			k := strings.Index(rest, " by ")
			if k < 0 {
				return fmt.Errorf("%s:%d: guarded needs ' by '", path, rc.line)
			}
			lhs, rhs := strings.TrimSpace(rest[:k]), strings.TrimSpace(rest[k+4:])
			m := regexp.MustCompile(`^\(([A-Za-z0-9_]+)\)\.(.*)$`).FindStringSubmatch(lhs)
			if m == nil {
				return fmt.Errorf("%s:%d: guarded (T).field by mutex", path, rc.line)
			}
			var mus []string
			for _, x := range strings.Split(rhs, "|") {
				mus = append(mus, strings.TrimSpace(x))
			}
			if db.Guards == nil {
				db.Guards = map[string]*Guard{}
			}
			for _, f := range strings.Split(m[2], ",") {
				f = strings.TrimSpace(f)
				db.Guards[pkgPath+"."+m[1]+"."+f] = &Guard{Type: m[1], Pkg: pkgPath, Field: f, Mutexes: mus}
			}
		case "lockorder":
			// lockorder (T1).mu1 < (T2).mu2
			m := regexp.MustCompile(`^\(([A-Za-z0-9_]+)\)\.([A-Za-z0-9_]+)\s*<\s*\(([A-Za-z0-9_]+)\)\.([A-Za-z0-9_]+)$`).FindStringSubmatch(strings.TrimSpace(rest))
			if m == nil {
				return fmt.Errorf("%s:%d: lockorder (T1).mu1 < (T2).mu2", path, rc.line)
			}
			db.LockOrders = append(db.LockOrders, LockOrder{Pkg: pkgPath, First: m[1] + "." + m[2], Second: m[3] + "." + m[4], Line: rc.line})
		case "lockinv":
			// lockinv (T).mu : expr   (the receiver is named `this`)
			k := strings.Index(rest, " : ")
			if k < 0 {
				return fmt.Errorf("%s:%d: lockinv needs ' : '", path, rc.line)
			}
			m := regexp.MustCompile(`^\(([A-Za-z0-9_]+)\)\.([A-Za-z0-9_]+)$`).FindStringSubmatch(strings.TrimSpace(rest[:k]))
			if m == nil {
				return fmt.Errorf("%s:%d: lockinv (T).mutex : expr", path, rc.line)
			}
			c, err := mk(rest[k+3:], rc.line)
			if err != nil {
				return err
			}
			if db.LockInvs == nil {
				db.LockInvs = map[string]*LockInv{}
			}
			db.LockInvs[pkgPath+"."+m[1]+"."+m[2]] = &LockInv{Type: m[1], Pkg: pkgPath, Mutex: m[2], C: c}
		case "axiom":
			c, err := mk(rest, rc.line)
			if err != nil {
				return err
			}
			db.Axioms = append(db.Axioms, Axiom{c, pkgPath})
		case "lemma":
			name, params, _, err := parseSig(rest)
			if err != nil {
				return fmt.Errorf("%s:%d: %v", path, rc.line, err)
			}
			curLemma = &Lemma{Name: name, Params: params, Pkg: pkgPath}
			db.Lemmas[name] = curLemma
			cur, curSpec = nil, nil
		case "induction":
			if curLemma != nil {
				curLemma.Induct = strings.TrimSpace(rest)
			}
		case "uses":
			if curLemma != nil {
				curLemma.Uses = append(curLemma.Uses, strings.Fields(rest)...)
			}
		}
	}
	return nil
}

var externKeyRe = regexp.MustCompile(`^\((\*?)([A-Za-z0-9_/.\-]+)\.([A-Za-z0-9_\[\],]+)\)\.([A-Za-z0-9_]+)$`)

// normalizeExternKey turns "(*bytes.Buffer).Truncate" into "bytes.(*Buffer).Truncate"
// and leaves "strings.Index" alone. Module-local short paths get the module prefix.
func normalizeExternKey(name string) string {
	if m := externKeyRe.FindStringSubmatch(name); m != nil {
		return qualifyPkg(m[2]) + ".(" + m[1] + m[3] + ")." + m[4]
	}
	// pkg/path.Func or pkg/path.(*T).M
	if i := strings.Index(name, ".("); i >= 0 {
		return qualifyPkg(name[:i]) + name[i:]
	}
	if i := strings.LastIndex(name, "."); i >= 0 {
		return qualifyPkg(name[:i]) + name[i:]
	}
	return name
}

var moduleTopDirs = map[string]bool{}

func qualifyPkg(p string) string {
	top := p
	if i := strings.Index(p, "/"); i >= 0 {
		top = p[:i]
	}
	if len(moduleTopDirs) == 0 {
		ents, _ := os.ReadDir(repoDir())
		for _, e := range ents {
			if e.IsDir() {
				moduleTopDirs[e.Name()] = true
			}
		}
	}
	// stdlib packages that clash with repo dir names do not occur in practice except
	// "format", "template", "model", "runner" (repo) — stdlib equivalents are
	// text/template etc., always written with their full path.
	if moduleTopDirs[top] && !strings.HasPrefix(p, modulePath) {
		if _, err := os.Stat(filepath.Join(repoDir(), p)); err == nil {
			return modulePath + "/" + p
		}
	}
	return p
}

func isQualifiedName(name string) bool {
	if strings.HasPrefix(name, "(") {
		if i := strings.Index(name, ")"); i > 0 {
			return strings.Contains(name[:i], ".")
		}
		return false
	}
	return strings.Contains(name, ".")
}

func splitWord(s string) (string, string) {
	s = strings.TrimSpace(s)
	if k := strings.IndexAny(s, " \t"); k >= 0 {
		return s[:k], strings.TrimSpace(s[k+1:])
	}
	return s, ""
}

func splitTopLevel(s string, sep byte) []string {
	var out []string
	depth := 0
	last := 0
	for i := 0; i < len(s); i++ {
		switch s[i] {
		case '(', '[':
			depth++
		case ')', ']':
			depth--
		default:
			if s[i] == sep && depth == 0 {
				out = append(out, strings.TrimSpace(s[last:i]))
				last = i + 1
			}
		}
	}
	out = append(out, strings.TrimSpace(s[last:]))
	return out
}

// parseSig parses "name(a int, b []uint64) ret" returning the remainder after the
// signature (e.g. "= body").
func parseSig(s string) (name string, params []SVar, rest string, err error) {
	i := strings.Index(s, "(")
	if i < 0 {
		return "", nil, "", fmt.Errorf("bad signature %q", s)
	}
	name = strings.TrimSpace(s[:i])
	depth := 0
	j := i
	for ; j < len(s); j++ {
		if s[j] == '(' {
			depth++
		} else if s[j] == ')' {
			depth--
			if depth == 0 {
				break
			}
		}
	}
	if j >= len(s) {
		return "", nil, "", fmt.Errorf("unbalanced signature %q", s)
	}
	ps := strings.TrimSpace(s[i+1 : j])
	if ps != "" {
		for _, part := range splitTopLevel(ps, ',') {
			n, t := splitWord(part)
			if t == "" {
				return "", nil, "", fmt.Errorf("parameter %q needs a type", part)
			}
			params = append(params, SVar{n, t})
		}
	}
	return name, params, strings.TrimSpace(s[j+1:]), nil
}

func parseSpecFuncDecl(s string) (*SpecFunc, error) {
	name, params, rest, err := parseSig(s)
	if err != nil {
		return nil, err
	}
	sf := &SpecFunc{Name: name, Params: params}
	ret := rest
	if k := strings.Index(rest, "="); k >= 0 {
		ret = strings.TrimSpace(rest[:k])
		if strings.HasSuffix(ret, ":") {
			// name(...) T := body  -- axiomatised definition (kept atomic in formulas)
			ret = strings.TrimSpace(strings.TrimSuffix(ret, ":"))
			sf.Opaque = true
		}
		sf.BodySrc = strings.TrimSpace(rest[k+1:])
		e, err := ParseSpec(sf.BodySrc)
		if err != nil {
			return nil, err
		}
		sf.Body = e
	}
	if ret == "" {
		return nil, fmt.Errorf("spec func %s needs a result type", name)
	}
	sf.Ret = ret
	return sf, nil
}

// LoadContractsFor loads the contract file of each package directory: the file in
// /repo (guarded by the verif build tag) wins; the mirror under /verif/contracts is
// the fallback. Returns which source was used per package.
func (db *ContractDB) LoadContractsFor(pkgPaths []string, verifDir string) (map[string]string, error) {
	used := map[string]string{}
	for _, pp := range pkgPaths {
		rel := strings.TrimPrefix(pp, modulePath+"/")
		// a package may have several contract files: verif_contracts.go, verif_contracts_<x>.go
		names := map[string]bool{}
		for _, dir := range []string{filepath.Join(repoDir(), rel), filepath.Join(verifDir, "contracts", rel)} {
			ms, _ := filepath.Glob(filepath.Join(dir, "verif_contracts*.go"))
			for _, m := range ms {
				names[filepath.Base(m)] = true
			}
		}
		var sorted []string
		for n := range names {
			sorted = append(sorted, n)
		}
		sort.Strings(sorted)
		for _, name := range sorted {
			inRepo := filepath.Join(repoDir(), rel, name)
			mirror := filepath.Join(verifDir, "contracts", rel, name)
			var path string
			_, errRepo := os.Stat(inRepo)
			_, errMirror := os.Stat(mirror)
			switch {
			case errRepo == nil && errMirror == nil:
				// kept identical by sync-contracts.sh; if they differ the developer's
				// mirror is used unless GOVC_CONTRACTS=repo
				a, _ := os.ReadFile(inRepo)
				b, _ := os.ReadFile(mirror)
				path = inRepo
				if string(a) != string(b) && os.Getenv("GOVC_CONTRACTS") != "repo" {
					path = mirror
					fmt.Fprintf(os.Stderr, "note: %s differs from the copy in /repo; using the /verif mirror (run sync-contracts.sh)\n", mirror)
				}
			case errRepo == nil:
				path = inRepo
			case errMirror == nil:
				path = mirror
			}
			if path == "" {
				continue
			}
			if err := db.LoadContractFile(path, pp); err != nil {
				return nil, err
			}
			if used[pp] != "" {
				used[pp] += ", " + path
			} else {
				used[pp] = path
			}
		}
	}
	return used, nil
}
