package main

import (
	"bufio"
	"encoding/json"
	"go/ast"
	"go/parser"
	"go/token"
	"os"
	"path/filepath"
	"sort"
	"strings"
)

// anchorFunctionsNotUnderContract lists, for the files the property is anchored in
// (properties.jsonl anchors.files), the declared functions and methods whose bodies are
// NOT verified by this property's check (they are not in props "functions"): the unverified
// surroundings, measured on every run from the current source.
func anchorFunctionsNotUnderContract(id string, under []string) (files []string, missing []string, total int) {
	f, err := os.Open(filepath.Join(verifDir(), "properties.jsonl"))
	if err != nil {
		return nil, nil, 0
	}
	defer f.Close()
	sc := bufio.NewScanner(f)
	sc.Buffer(make([]byte, 1<<20), 1<<24)
	for sc.Scan() {
		var p struct {
			ID      string `json:"id"`
			Anchors struct {
				Files []string `json:"files"`
			} `json:"anchors"`
		}
		if json.Unmarshal(sc.Bytes(), &p) != nil || p.ID != id {
			continue
		}
		files = p.Anchors.Files
	}
	have := map[string]bool{}
	for _, u := range under {
		// "server.(*Scheduler).load$1" -> closures belong to their parent
		if k := strings.Index(u, "$"); k >= 0 {
			u = u[:k]
		}
		have[u] = true
	}
	fset := token.NewFileSet()
	for _, rel := range files {
		path := filepath.Join(repoDir(), rel)
		af, err := parser.ParseFile(fset, path, nil, parser.SkipObjectResolution)
		if err != nil {
			continue
		}
		pkg := filepath.ToSlash(filepath.Dir(rel))
		for _, d := range af.Decls {
			fd, ok := d.(*ast.FuncDecl)
			if !ok || fd.Body == nil {
				continue
			}
			total++
			key := pkg + "." + fd.Name.Name
			if fd.Recv != nil && len(fd.Recv.List) == 1 {
				t := fd.Recv.List[0].Type
				star := ""
				if s, ok := t.(*ast.StarExpr); ok {
					star = "*"
					t = s.X
				}
				if ix, ok := t.(*ast.IndexExpr); ok {
					t = ix.X
				}
				if idn, ok := t.(*ast.Ident); ok {
					if star != "" {
						key = pkg + ".(*" + idn.Name + ")." + fd.Name.Name
					} else {
						key = pkg + ".(" + idn.Name + ")." + fd.Name.Name
					}
				}
			}
			if !have[key] {
				missing = append(missing, key)
			}
		}
	}
	sort.Strings(missing)
	return files, missing, total
}
