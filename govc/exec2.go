package main

import (
	"fmt"
	"go/token"
	"go/types"
	"sort"
	"strings"

	"golang.org/x/tools/go/ssa"
)

// ---------- loops ----------

func (e *Enc) loopHeader(b *ssa.BasicBlock, li *loopInfo, st *State) {
	conds := e.incoming(b)
	isBack := func(i int) bool { return b.Dominates(b.Preds[i]) }
	// 1. entry values of phis
	entryPhi := map[*ssa.Phi]*Val{}
	var phis []*ssa.Phi
	for _, ins := range b.Instrs {
		phi, ok := ins.(*ssa.Phi)
		if !ok {
			break
		}
		phis = append(phis, phi)
		entryPhi[phi] = e.mergePhi(phi, conds, isBack)
	}
	invs := e.loopInvariants(li, phis)
	// 2. invariants hold on entry
	for k, inv := range invs {
		for _, phi := range phis {
			e.vals[phi] = entryPhi[phi]
		}
		ctx := e.ctxAt(b, 0, st)
		if inv.Kind == "skip" {
			continue
		}
		f := e.evalInv(inv, ctx)
		e.obligeSplit(e.pc[b], "loop", fmt.Sprintf("loop%d.%s%d.init", li.Ord, inv.Kind, k+1), f, b.Instrs[0].Pos(), "invariant holds on loop entry: "+inv.C.Src, b)
	}
	li.preState = st.clone()
	// 3. havoc
	ws := e.loopWrites(li)
	if ws.ghost["held:*"] {
		ws.roots["lockstate"] = true
	}
	if ws.all {
		if ws.storeAll {
			// a store whose target cannot be resolved: nothing local may be kept
			e.havocAllNoPreserve(st)
		} else {
			e.havocAll(st, "loop body")
		}
		// the global havoc keeps the objects private to this call; forget what the
		// loop body itself writes to them
		only := newWriteSet()
		for r := range ws.roots {
			only.roots[r] = true
		}
		if ws.ghost["held:*"] {
			only.roots["lockstate"] = true
		}
		e.havocRoots(st, only, false)
		e.havocKeys(st, ws, li)
	} else {
		e.havocRoots(st, ws, false)
		e.havocKeys(st, ws, li)
	}
	na := e.declare(e.freshName("al_loop"), "Int")
	e.assume("(>= " + na + " " + st.alloc + ")")
	st.alloc = na
	for k := range st.ghost {
		if strings.HasPrefix(k, "g:") && !ws.ghost[k] {
			continue // ghost variables change only through ghost-at / callee modifies
		}
		if strings.HasPrefix(k, "b:anyheld:") && !ws.ghost["held:*"] {
			continue // no lock operation in the loop
		}
		if strings.HasPrefix(k, "had:") || strings.HasPrefix(k, "vis:") && !ws.ghost[k] {
			continue // fixed at the range statement / changed only by its own Next
		}
		if ws.ghost[k] || ws.all || strings.HasPrefix(k, "iter:") && ws.ghost[k] {
			st.ghost[k] = e.declare(e.freshName("gh"), ghostSort(k))
		}
	}
	if e.ctr != nil {
		for _, ga := range e.ctr.GhostAts {
			if ga.SelKind == "entry" {
				continue
			}
			// havoc only if an assignment site can lie inside this loop
			inLoop := ga.SelKind != "call"
			for bb := range li.Body {
				for _, ins := range bb.Instrs {
					var cc *ssa.CallCommon
					switch x := ins.(type) {
					case *ssa.Call:
						cc = &x.Call
					case *ssa.Defer:
						cc = &x.Call
					case *ssa.Go:
						cc = &x.Call
					}
					if cc == nil {
						continue
					}
					key, _ := e.calleeKey(cc)
					if b, ok := cc.Value.(*ssa.Builtin); ok {
						key = b.Name()
					}
					if ga.Callee == "" || matchCallee(ga.Callee, ShortKey(key)) {
						inLoop = true
					}
				}
			}
			if inLoop {
				st.ghost["g:"+ga.Var] = e.declare(e.freshName("gh_"+ga.Var), "Int")
			}
		}
	}
	for _, phi := range phis {
		v := e.freshVal("lp_"+sanitize(phi.Comment), phi.Type(), false)
		// keep static pointer shape from entry
		v.Path, v.Root, v.Closure = entryPhi[phi].Path, entryPhi[phi].Root, entryPhi[phi].Closure
		if len(v.Path) > 0 {
			e.note("loop-carried interior pointer %s: static path assumed loop-invariant", phi.Name())
		}
		e.vals[phi] = v
		e.assumeHere(e.typeInvFormula(st, v))
	}
	// iterator ghosts of range loops whose Next sits in this loop
	for k := range ws.ghost {
		if strings.HasPrefix(k, "iter:") {
			if _, ok := st.ghost[k]; ok {
				n := e.declare(e.freshName("it"), "Int")
				st.ghost[k] = n
				e.assumeHere("(>= " + n + " 0)")
			}
		}
	}
	// 4. assume invariants
	ctx := e.ctxAt(b, 0, st)
	for _, inv := range invs {
		f := e.evalInv(inv, ctx)
		e.assumeHere(f)
	}
	if dc, ok := e.loopDecreases(li); ok {
		v := e.evalSpec(dc.E, ctx)
		li.decAtHead = e.define("dec", "Int", v.term())
	}
}

type loopInv struct {
	Kind string // inv | auto
	C    Clause
	Raw  func() string // when set, evaluates the invariant from the current e.vals
}

func (e *Enc) evalInv(inv loopInv, ctx *specCtx) string {
	if inv.Kind == "skip" {
		return "true"
	}
	if inv.Raw != nil {
		return inv.Raw()
	}
	return e.evalBoolCtx(inv.C, ctx)
}

func (e *Enc) loopDecreases(li *loopInfo) (Clause, bool) {
	if e.ctr == nil {
		return Clause{}, false
	}
	c, ok := e.ctr.LoopDec[li.Ord]
	return c, ok
}

func (e *Enc) loopInvariants(li *loopInfo, phis []*ssa.Phi) []loopInv {
	var out []loopInv
	if e.ctr != nil {
		for _, c := range e.ctr.LoopInv[li.Ord] {
			out = append(out, loopInv{Kind: "inv", C: c})
		}
	}
	// automatic: counters that start at a constant and only step upward
	if e.ctr != nil && e.ctr.Opts["auto-inv"] == "off" {
		return out
	}
	// slices carried around a loop usually keep their window offset (append, reslicing
	// from the front excepted): guess it, Houdini drops the guess if it does not hold
	for _, phi := range phis {
		if _, ok := phi.Type().Underlying().(*types.Slice); !ok {
			continue
		}
		var entryOff string
		same := true
		for i, ed := range phi.Edges {
			if phi.Block().Dominates(phi.Block().Preds[i]) {
				continue
			}
			v, ok := e.vals[ed]
			if !ok {
				if _, isConst := ed.(*ssa.Const); isConst {
					v = e.val(ed)
				} else {
					same = false
					break
				}
			}
			if entryOff == "" {
				entryOff = v.L[slOff]
			} else if entryOff != v.L[slOff] {
				same = false
			}
		}
		if same && entryOff != "" {
			ph, eo := phi, entryOff
			out = append(out, loopInv{Kind: "auto", C: Clause{Src: "offset(" + phi.Comment + ") unchanged"}, Raw: func() string {
				return "(= " + e.vals[ph].L[slOff] + " " + eo + ")"
			}})
		}
	}
	for _, phi := range phis {
		if !isInteger(phi.Type()) || phi.Comment == "" {
			continue
		}
		if phi.Comment == "rangeindex" {
			// for i := range X: the phi holds the last index visited (starts at -1);
			// the header compares phi+1 with the bound.
			var bound ssa.Value
			for _, ins := range phi.Block().Instrs {
				if bo, ok := ins.(*ssa.BinOp); ok && bo.Op == token.LSS {
					if add, ok := bo.X.(*ssa.BinOp); ok && add.Op == token.ADD && add.X == ssa.Value(phi) {
						bound = bo.Y
					}
				}
			}
			if bound != nil {
				ph, bd := phi, bound
				out = append(out, loopInv{Kind: "auto", C: Clause{Src: "-1 <= rangeindex && (rangeindex < bound || rangeindex == -1)"}, Raw: func() string {
					p := e.vals[ph].term()
					n := e.val(bd).term()
					return "(and (<= (- 1) " + p + ") (or (< " + p + " " + n + ") (= " + p + " (- 1))))"
				}})
				continue
			}
		}
		if phi.Comment == "rangeint.iter" {
			// for i := range n (rotated loop): entered only if 0 < n, repeated while i+1 < n
			var bound ssa.Value
			for i, ed := range phi.Edges {
				if !phi.Block().Dominates(phi.Block().Preds[i]) {
					continue
				}
				if add, ok := ed.(*ssa.BinOp); ok && add.Op == token.ADD && add.X == ssa.Value(phi) {
					for _, ins := range add.Block().Instrs {
						if bo, ok := ins.(*ssa.BinOp); ok && bo.Op == token.LSS && bo.X == ssa.Value(add) {
							bound = bo.Y
						}
					}
				}
			}
			if bound != nil {
				ph, bd := phi, bound
				out = append(out, loopInv{Kind: "auto", C: Clause{Src: "0 <= rangeint.iter && rangeint.iter < bound"}, Raw: func() string {
					p := e.vals[ph].term()
					n := e.val(bd).term()
					return "(and (<= 0 " + p + ") (< " + p + " " + n + "))"
				}})
				continue
			}
		}
		var lo *int64
		okAll := true
		for i, ed := range phi.Edges {
			back := phi.Block().Dominates(phi.Block().Preds[i])
			if !back {
				c, ok := ed.(*ssa.Const)
				if !ok || c.Value == nil {
					okAll = false
					break
				}
				v := c.Int64()
				if lo == nil || v < *lo {
					lo = &v
				}
			} else {
				bo, ok := ed.(*ssa.BinOp)
				if !ok || bo.Op != token.ADD || bo.X != ssa.Value(phi) {
					okAll = false
					break
				}
				c, ok := bo.Y.(*ssa.Const)
				if !ok || c.Value == nil || c.Int64() <= 0 {
					okAll = false
					break
				}
			}
		}
		if okAll && lo != nil {
			ph, lov := phi, *lo
			out = append(out, loopInv{Kind: "auto", C: Clause{Src: fmt.Sprintf("%s >= %d", phi.Comment, lov)}, Raw: func() string {
				return "(>= " + e.vals[ph].term() + " " + sInt(lov) + ")"
			}})
		}
	}
	for i := range out {
		if out[i].Kind == "auto" && e.disabledAuto[fmt.Sprintf("loop%d.auto%d", li.Ord, i+1)] {
			out[i].Kind = "skip"
		}
	}
	return out
}

// autoPhiRef wraps an expression whose single identifier denotes a specific phi.
type autoPhiRef struct {
	E   SExpr
	Phi *ssa.Phi
}

func (autoPhiRef) sexpr() {}

func (e *Enc) checkBackEdges(b *ssa.BasicBlock, st *State) {
	seen := map[*ssa.BasicBlock]int{}
	for slot, s := range b.Succs {
		nth := seen[s]
		seen[s]++
		li := e.loops[s]
		if li == nil || !s.Dominates(b) || e.pc[s] == "false" {
			continue
		}
		_ = nth
		// predecessor index of this edge in s.Preds
		pi := -1
		c := 0
		for i, p := range s.Preds {
			if p == b {
				if c == nth {
					pi = i
					break
				}
				c++
			}
		}
		cond := e.edge(b, slot)
		var phis []*ssa.Phi
		saved := map[*ssa.Phi]*Val{}
		for _, ins := range s.Instrs {
			phi, ok := ins.(*ssa.Phi)
			if !ok {
				break
			}
			phis = append(phis, phi)
			saved[phi] = e.vals[phi]
		}
		backVals := map[*ssa.Phi]*Val{}
		for _, phi := range phis {
			backVals[phi] = e.val(phi.Edges[pi])
		}
		// decreases uses header values, so evaluate before overriding
		invs := e.loopInvariants(li, phis)
		for _, phi := range phis {
			e.vals[phi] = backVals[phi]
		}
		ctx := e.ctxAt(s, 0, st)
		for k, inv := range invs {
			if inv.Kind == "skip" {
				continue
			}
			f := e.evalInv(inv, ctx)
			e.obligeSplit(cond, "loop", fmt.Sprintf("loop%d.%s%d.keep@b%d", li.Ord, inv.Kind, k+1, b.Index), f, b.Instrs[len(b.Instrs)-1].Pos(), "invariant preserved by loop body: "+inv.C.Src, b)
		}
		// rotated loops leave from the latch: establish the (declared) invariants on
		// the exit edges too, and keep them as facts for the code after the loop
		for slot2, s2 := range b.Succs {
			if s2 == s || li.Body[s2] || len(b.Succs) < 2 || b.Comment != "rangeint.loop" {
				continue
			}
			exitCond := e.edge(b, slot2)
			for k, inv := range invs {
				if inv.Kind != "inv" {
					continue
				}
				f := e.evalInv(inv, ctx)
				e.obligeSplit(exitCond, "loop", fmt.Sprintf("loop%d.%s%d.exit@b%d", li.Ord, inv.Kind, k+1, b.Index), f, b.Instrs[len(b.Instrs)-1].Pos(), "invariant holds when the loop is left from its latch: "+inv.C.Src, b)
				e.assume(sImp(exitCond, f))
			}
		}
		if dc, ok := e.loopDecreases(li); ok {
			v := e.evalSpec(dc.E, ctx)
			f := "(and (>= " + li.decAtHead + " 0) (< " + v.term() + " " + li.decAtHead + "))"
			e.obligeAt(cond, "loop", fmt.Sprintf("loop%d.dec@b%d", li.Ord, b.Index), f, b.Instrs[len(b.Instrs)-1].Pos(), "loop variant decreases: "+dc.Src)
		}
		for _, phi := range phis {
			e.vals[phi] = saved[phi]
		}
	}
}

type writeSet struct {
	storeAll bool // a store with an unresolvable target
	all   bool
	roots map[string]bool // heap roots (typeKey) possibly written
	ghost map[string]bool
	keys  map[string]*keyWrite // individual heap arrays written by stores with a known base
}

type keyWrite struct {
	hk    *heapKey
	whole bool
	bases []ssa.Value
}

func newWriteSet() *writeSet {
	return &writeSet{roots: map[string]bool{}, ghost: map[string]bool{}, keys: map[string]*keyWrite{}}
}

func (w *writeSet) add(o *writeSet) {
	if o.all {
		w.all = true
	}
	if o.storeAll {
		w.storeAll = true
	}
	for k, kw := range o.keys {
		cur := w.keys[k]
		if cur == nil {
			cur = &keyWrite{hk: kw.hk}
			w.keys[k] = cur
		}
		cur.whole = cur.whole || kw.whole
		cur.bases = append(cur.bases, kw.bases...)
	}
	for k := range o.roots {
		w.roots[k] = true
	}
	for k := range o.ghost {
		w.ghost[k] = true
	}
}

// staticRoot finds the heap root type an address value points into.
func staticRoot(addr ssa.Value) types.Type {
	for {
		switch a := addr.(type) {
		case *ssa.FieldAddr:
			addr = a.X
			continue
		case *ssa.IndexAddr:
			switch u := a.X.Type().Underlying().(type) {
			case *types.Slice:
				return u.Elem()
			case *types.Pointer:
				// pointer to array: either row (root elem) or interior
				if _, ok := a.X.(*ssa.FieldAddr); ok {
					addr = a.X
					continue
				}
				return u.Elem().Underlying().(*types.Array).Elem()
			}
		}
		pt, ok := addr.Type().Underlying().(*types.Pointer)
		if !ok {
			return nil
		}
		return ptrRoot(pt.Elem())
	}
}

// staticStoreKeys determines which heap arrays a store writes and from which base
// value (slice or pointer) the written object is reached. Returns false when the
// address chain cannot be resolved statically.
func (e *Enc) staticStoreKeys(addr ssa.Value, T types.Type, ws *writeSet) bool {
	var path []Step
	cur := addr
	var base ssa.Value
	var root types.Type
	for base == nil {
		switch a := cur.(type) {
		case *ssa.FieldAddr:
			path = append([]Step{{Field: a.Field}}, path...)
			cur = a.X
		case *ssa.IndexAddr:
			switch u := a.X.Type().Underlying().(type) {
			case *types.Slice:
				base, root = a.X, u.Elem()
			case *types.Pointer:
				arr := u.Elem().Underlying().(*types.Array)
				if _, embedded := a.X.(*ssa.FieldAddr); embedded {
					return false
				}
				base, root = a.X, arr.Elem()
			default:
				return false
			}
		default:
			pt, ok := cur.Type().Underlying().(*types.Pointer)
			if !ok {
				return false
			}
			if _, isArr := pt.Elem().Underlying().(*types.Array); isArr {
				return false
			}
			base, root = cur, ptrRoot(pt.Elem())
		}
	}
	fake := &Val{T: types.NewPointer(T), L: []string{"?r", "?i"}, Root: root, Path: path}
	for _, lf := range typeLeaves(T) {
		if lf.Dims > 0 {
			return false
		}
	}
	for _, a := range e.accesses(fake, T) {
		kw := ws.keys[a.HK.Key]
		if kw == nil {
			kw = &keyWrite{hk: a.HK}
			ws.keys[a.HK.Key] = kw
		}
		kw.bases = append(kw.bases, base)
	}
	return true
}

func (e *Enc) loopWrites(li *loopInfo) *writeSet {
	ws := newWriteSet()
	for b := range li.Body {
		for _, ins := range b.Instrs {
			ws.add(e.instrWrites(ins))
		}
	}
	return ws
}

func (e *Enc) instrWrites(ins ssa.Instruction) *writeSet {
	ws := newWriteSet()
	switch ins := ins.(type) {
	case *ssa.Store:
		if !e.staticStoreKeys(ins.Addr, ins.Val.Type(), ws) {
			if r := staticRoot(ins.Addr); r != nil {
				ws.roots[typeKey(r)] = true
			} else {
				ws.all = true
				ws.storeAll = true
			}
		}
	case *ssa.MapUpdate:
		ws.roots[typeKey(ins.Map.Type().Underlying())] = true
	case *ssa.Alloc, *ssa.MakeSlice, *ssa.MakeMap:
		// objects created in the loop are fresh: no pre-existing cell changes
	case *ssa.Convert:
		if sl, ok := ins.Type().Underlying().(*types.Slice); ok {
			ws.roots[typeKey(sl.Elem())] = true
		}
	case *ssa.Next:
		ws.ghost["iter:"+ins.Iter.Name()] = true
		ws.ghost["vis:"+ins.Iter.Name()] = true
	case *ssa.Call:
		ws.add(e.callWrites(&ins.Call))
	case *ssa.Go:
		ws.add(e.callWrites(&ins.Call))
	case *ssa.Defer:
		ws.add(e.callWrites(&ins.Call))
	case *ssa.RunDefers:
		for _, b := range e.fn.Blocks {
			for _, i2 := range b.Instrs {
				if d, ok := i2.(*ssa.Defer); ok {
					ws.add(e.callWrites(&d.Call))
				}
			}
		}
	case *ssa.Select, *ssa.Send:
		if e.concurrent() {
			ws.all = true
		}
	case *ssa.UnOp:
		if ins.Op == token.ARROW && e.concurrent() {
			ws.all = true
		}
	}
	return ws
}

func (e *Enc) concurrent() bool {
	return e.ctr != nil && e.ctr.Opts["concurrent"] == "on"
}

// callWrites: which heap roots a call may write (static approximation used for
// loop havoc and for calls without contract).
func (e *Enc) callWrites(c *ssa.CallCommon) *writeSet {
	ws := newWriteSet()
	if b, ok := c.Value.(*ssa.Builtin); ok {
		switch b.Name() {
		case "append":
			if sl, ok := c.Args[0].Type().Underlying().(*types.Slice); ok {
				ws.roots[typeKey(sl.Elem())] = true
			}
		case "copy":
			if sl, ok := c.Args[0].Type().Underlying().(*types.Slice); ok {
				ws.roots[typeKey(sl.Elem())] = true
			}
		case "delete", "clear":
			ws.roots[typeKey(c.Args[0].Type().Underlying())] = true
			if sl, ok := c.Args[0].Type().Underlying().(*types.Slice); ok {
				ws.roots[typeKey(sl.Elem())] = true
			}
		}
		return ws
	}
	key, fn := e.calleeKey(c)
	if ctr := e.DB.Funcs[key]; ctr != nil {
		if ctr.Pure {
			return ws
		}
		if ctr.HasMod && !ctr.ModAll {
			// roots from the designator expressions' static types are resolved at
			// application time; here approximate by reach of the argument types
			// restricted by the designators' leading identifiers.
			return e.modifiesRootsStatic(ctr, c, fn)
		}
		if ctr.ModAll {
			ws.all = true
			return ws
		}
	}
	if isPureExtern(key) {
		return ws
	}
	// lock operations touch only ghost state
	if isLockOp(key) {
		ws.ghost["held:*"] = true
		if e.concurrent() {
			ws.all = true
		}
		return ws
	}
	// unknown callee: type reachability from the arguments (frame assumption F1)
	var ts []types.Type
	if c.IsInvoke() {
		ts = append(ts, c.Value.Type())
	} else if _, isFn := c.Value.(*ssa.Function); !isFn {
		// dynamic call through a function value / closure
		if mc, ok := c.Value.(*ssa.MakeClosure); ok {
			for _, b := range mc.Bindings {
				ts = append(ts, b.Type())
			}
			// a local closure body: collect its writes directly
			if cf, ok := mc.Fn.(*ssa.Function); ok {
				ws.add(e.funcBodyWrites(cf, map[*ssa.Function]bool{}))
				if ws.all {
					return ws
				}
			}
		} else {
			ws.all = true
			return ws
		}
	}
	for _, a := range c.Args {
		if mc, ok := a.(*ssa.MakeClosure); ok {
			if cf, ok := mc.Fn.(*ssa.Function); ok && len(cf.Blocks) > 0 {
				// a closure literal: what it can write is what its body writes
				ws.add(e.funcBodyWrites(cf, map[*ssa.Function]bool{}))
				continue
			}
		}
		ts = append(ts, a.Type())
	}
	seen := map[types.Type]bool{}
	for _, t := range ts {
		typeReach(t, ws, seen)
	}
	return ws
}

// funcBodyWrites over-approximates what a function with a body in this program
// may write, by a syntactic scan (used for closures passed to library functions).
func (e *Enc) funcBodyWrites(f *ssa.Function, seen map[*ssa.Function]bool) *writeSet {
	ws := newWriteSet()
	if seen[f] {
		return ws
	}
	seen[f] = true
	sub := NewEnc(e.P, e.DB, f)
	sub.hkeys = e.hkeys
	for _, b := range f.Blocks {
		for _, ins := range b.Instrs {
			switch ins := ins.(type) {
			case *ssa.Call:
				if cf := ins.Call.StaticCallee(); cf != nil && len(cf.Blocks) > 0 && cf.Pkg == f.Pkg && e.DB.Funcs[FuncKey(cf)] == nil {
					ws.add(e.funcBodyWrites(cf, seen))
					continue
				}
				ws.add(sub.callWrites(&ins.Call))
			default:
				ws.add(sub.instrWrites(ins))
			}
		}
	}
	return ws
}

func typeReach(t types.Type, ws *writeSet, seen map[types.Type]bool) {
	if ws.all || seen[t] {
		return
	}
	seen[t] = true
	switch u := t.Underlying().(type) {
	case *types.Pointer:
		ws.roots[typeKey(ptrRoot(u.Elem()))] = true
		typeReach(u.Elem(), ws, seen)
	case *types.Slice:
		ws.roots[typeKey(u.Elem())] = true
		typeReach(u.Elem(), ws, seen)
	case *types.Array:
		typeReach(u.Elem(), ws, seen)
	case *types.Map:
		ws.roots[typeKey(u)] = true
		typeReach(u.Elem(), ws, seen)
		typeReach(u.Key(), ws, seen)
	case *types.Chan:
		typeReach(u.Elem(), ws, seen)
	case *types.Struct:
		for i := 0; i < u.NumFields(); i++ {
			typeReach(u.Field(i).Type(), ws, seen)
		}
	case *types.Interface:
		if n, ok := types.Unalias(t).(*types.Named); ok && n.Obj().Name() == "error" && n.Obj().Pkg() == nil {
			return // error values: immutable by convention
		}
		ws.all = true
	case *types.Signature:
		ws.all = true
	case *types.Tuple:
		for i := 0; i < u.Len(); i++ {
			typeReach(u.At(i).Type(), ws, seen)
		}
	}
}

func (e *Enc) modifiesRootsStatic(ctr *Contract, c *ssa.CallCommon, fn *ssa.Function) *writeSet {
	ws := newWriteSet()
	// parameter types of the callee by name
	env := map[string]types.Type{}
	sig := c.Signature()
	var names []string
	var ptypes []types.Type
	if c.IsInvoke() {
		names, ptypes = append(names, "this"), append(ptypes, c.Value.Type())
	}
	if fn != nil && len(fn.Params) > 0 {
		for _, p := range fn.Params {
			names, ptypes = append(names, p.Name()), append(ptypes, p.Type())
		}
	} else {
		if sig.Recv() != nil {
			names, ptypes = append(names, sig.Recv().Name()), append(ptypes, sig.Recv().Type())
		}
		for i := 0; i < sig.Params().Len(); i++ {
			names, ptypes = append(names, sig.Params().At(i).Name()), append(ptypes, sig.Params().At(i).Type())
		}
	}
	for i, n := range names {
		env[n] = ptypes[i]
		env[fmt.Sprintf("arg%d", i)] = ptypes[i]
	}
	if len(ptypes) > 0 {
		env["this"] = ptypes[0]
	}
	for _, m := range ctr.Modifies {
		if !designatorRoots(m.E, env, ws) {
			// cannot type the designator statically: fall back to type reachability
			seen := map[types.Type]bool{}
			for _, t := range ptypes {
				typeReach(t, ws, seen)
			}
		}
	}
	return ws
}

// specStaticType types a designator sub-expression from parameter types.
func specStaticType(x SExpr, env map[string]types.Type) types.Type {
	switch x := x.(type) {
	case SIdent:
		return env[x.Name]
	case SSel:
		if strings.HasPrefix(x.Name, "ghost_") {
			return nil
		}
		t := specStaticType(x.X, env)
		if t == nil {
			return nil
		}
		if p, ok := t.Underlying().(*types.Pointer); ok {
			t = p.Elem()
		}
		st, ok := t.Underlying().(*types.Struct)
		if !ok {
			return nil
		}
		_, ft := findField(st, x.Name)
		return ft
	case SIndex:
		t := specStaticType(x.X, env)
		if t == nil {
			return nil
		}
		switch u := t.Underlying().(type) {
		case *types.Slice:
			return u.Elem()
		case *types.Array:
			return u.Elem()
		case *types.Map:
			return u.Elem()
		}
	case SUnary:
		if x.Op == "*" {
			if t := specStaticType(x.X, env); t != nil {
				if p, ok := t.Underlying().(*types.Pointer); ok {
					return p.Elem()
				}
			}
		}
	}
	return nil
}

// designatorRoots adds the heap roots a modifies designator can touch. Returns
// false when the designator cannot be typed statically.
func designatorRoots(x SExpr, env map[string]types.Type, ws *writeSet) bool {
	addValueRoots := func(container types.Type, T types.Type) {
		// scalar leaves live in the container root, embedded arrays in element rows
		for _, lf := range typeLeaves(T) {
			if lf.Dims == 0 {
				ws.roots[typeKey(container)] = true
				continue
			}
			k := 0
			for k < len(lf.Path) && lf.Path[k] >= 0 {
				k++
			}
			if et := typeAtPath(T, lf.Path[:k+1]); et != nil {
				ws.roots[typeKey(et)] = true
			}
		}
	}
	switch x := x.(type) {
	case SSel:
		if strings.HasPrefix(x.Name, "ghost_") {
			ws.roots[typeKey(types.Typ[types.UnsafePointer])] = true
			return true
		}
		bt := specStaticType(x.X, env)
		if bt == nil {
			return false
		}
		p, ok := bt.Underlying().(*types.Pointer)
		if !ok {
			return false
		}
		st, ok := p.Elem().Underlying().(*types.Struct)
		if !ok {
			return false
		}
		_, ft := findField(st, x.Name)
		if ft == nil {
			return false
		}
		if m, ok := ft.Underlying().(*types.Map); ok {
			ws.roots[typeKey(m)] = true
			return true
		}
		// the struct may itself be embedded in a larger object; the root is what the
		// base pointer's static type says (callers pass plain or interior pointers of
		// the same pointee type; interior actuals are resolved at application time)
		addValueRoots(ptrRoot(p.Elem()), ft)
		return true
	case SUnary:
		if x.Op == "*" {
			t := specStaticType(x.X, env)
			if t == nil {
				return false
			}
			p, ok := t.Underlying().(*types.Pointer)
			if !ok {
				return false
			}
			addValueRoots(ptrRoot(p.Elem()), p.Elem())
			return true
		}
	case SIndex:
		if sel, ok := x.X.(SSel); ok && strings.HasPrefix(sel.Name, "ghost_") {
			ws.roots[typeKey(types.Typ[types.UnsafePointer])] = true
			return true
		}
		t := specStaticType(x.X, env)
		if t == nil {
			return false
		}
		switch u := t.Underlying().(type) {
		case *types.Slice:
			addValueRoots(u.Elem(), u.Elem())
			return true
		case *types.Map:
			ws.roots[typeKey(u)] = true
			return true
		}
	case SIdent:
		if strings.HasPrefix(x.Name, "ghost_") {
			ws.ghost["g:"+x.Name] = true
			return true
		}
	case SCall:
		if x.Fn == "boxed" {
			ws.all = true
			return true
		}
	}
	return false
}

func leadingIdent(x SExpr) (string, bool) {
	for {
		switch v := x.(type) {
		case SIdent:
			return v.Name, true
		case SSel:
			x = v.X
		case SIndex:
			x = v.X
		case SUnary:
			x = v.X
		case SSlice:
			x = v.X
		default:
			return "", false
		}
	}
}

// ---------- havoc ----------

func (e *Enc) havocAll(st *State, why string) {
	old := st.clone()
	old.heap = map[string]string{}
	for k, v := range st.heap {
		old.heap[k] = v
	}
	st.heap = map[string]string{}
	for k, v := range old.heap {
		if strings.HasPrefix(k, "lockstate/") {
			st.heap[k] = v
		}
	}
	st.rootEpoch = map[string]int{}
	st.epoch = e.newEpoch()
	e.bumpAllVer(st)
	e.preserveLocals(old, st, nil)
}

func (e *Enc) havocAllNoPreserve(st *State) {
	old := st.heap
	st.heap = map[string]string{}
	for k, v := range old {
		if strings.HasPrefix(k, "lockstate/") {
			st.heap[k] = v
		}
	}
	st.rootEpoch = map[string]int{}
	st.epoch = e.newEpoch()
	e.bumpAllVer(st)
}

func (e *Enc) havocRoots(st *State, ws *writeSet, preserve bool) {
	if ws.all {
		e.havocAll(st, "")
		return
	}
	if len(ws.roots) == 0 {
		return
	}
	old := st.clone()
	for k := range st.heap {
		if ws.roots[e.rootOfHeapKey(k)] {
			delete(st.heap, k)
		}
	}
	rs := make([]string, 0, len(ws.roots))
	for r := range ws.roots {
		rs = append(rs, r)
	}
	sort.Strings(rs)
	ep := e.newEpoch()
	for _, r := range rs {
		st.rootEpoch[r] = ep
		e.bumpVer(st, r)
	}
	if preserve {
		e.preserveLocals(old, st, ws.roots)
	}
}

// havocKeys forgets, at a loop head, the rows of the objects the loop body stores to.
func (e *Enc) havocKeys(st *State, ws *writeSet, li *loopInfo) {
	ks := make([]string, 0, len(ws.keys))
	for k := range ws.keys {
		ks = append(ks, k)
	}
	sort.Strings(ks)
	for _, k := range ks {
		kw := ws.keys[k]
		if ws.roots[kw.hk.Root] {
			continue // whole root already forgotten
		}
		whole := kw.whole
		var refs []string
		for _, b := range kw.bases {
			inLoop := false
			if ins, ok := b.(ssa.Instruction); ok && li.Body[ins.Block()] {
				inLoop = true
			}
			if inLoop {
				switch b.(type) {
				case *ssa.Alloc, *ssa.MakeSlice:
					continue // created by the loop: fresh, cannot be a pre-existing row
				}
				whole = true
				break
			}
			v, ok := e.vals[b]
			if !ok {
				switch b.(type) {
				case *ssa.Global, *ssa.Const:
					v = e.val(b)
				default:
					whole = true
				}
			}
			if v != nil {
				refs = append(refs, v.L[0])
			}
		}
		if whole {
			delete(st.heap, k)
			st.rootEpoch[kw.hk.Root+"#"+k] = 0
			name := e.declare(e.freshName("hk"), kw.hk.Sort)
			st.heap[k] = name
			e.bumpVer(st, kw.hk.Root)
			continue
		}
		seen := map[string]bool{}
		for _, r := range refs {
			if seen[r] {
				continue
			}
			seen[r] = true
			row := e.declare(e.freshName("hrow"), arraySort(kw.hk.Leaf.Sort, 1))
			e.heapSet(st, kw.hk, "(store "+e.heapGet(st, kw.hk)+" "+r+" "+row+")")
		}
	}
}

// preserveLocals re-establishes the content of objects allocated by this function
// that have not escaped: no other code holds a reference to them.
func (e *Enc) preserveLocals(old, st *State, roots map[string]bool) {
	for _, site := range e.allocd {
		if !e.nonEsc[site] {
			continue
		}
		var root types.Type
		switch s := site.(type) {
		case *ssa.Alloc:
			root = ptrRoot(s.Type().(*types.Pointer).Elem())
		case *ssa.MakeSlice:
			root = s.Type().Underlying().(*types.Slice).Elem()
		default:
			continue
		}
		rk := typeKey(root)
		if roots != nil && !roots[rk] {
			continue
		}
		ref := e.vals[site].L[0]
		for _, lf := range typeLeaves(root) {
			hk := e.hkey(root, lf.PathKey(), lf, lf.Dims)
			if _, touched := old.heap[hk.Key]; !touched {
				continue
			}
			e.heapSet(st, hk, "(store "+e.heapGet(st, hk)+" "+ref+" (select "+old.heap[hk.Key]+" "+ref+"))")
		}
	}
}

// ---------- escape analysis (static, flow-insensitive) ----------

func (e *Enc) computeEscapes() {
	e.nonEsc = map[ssa.Value]bool{}
	for _, b := range e.fn.Blocks {
		for _, ins := range b.Instrs {
			switch v := ins.(type) {
			case *ssa.Alloc:
				e.nonEsc[v] = !e.valueEscapes(v, map[ssa.Value]bool{})
			case *ssa.MakeSlice:
				e.nonEsc[v] = !e.valueEscapes(v, map[ssa.Value]bool{})
			}
		}
	}
}

func (e *Enc) valueEscapes(v ssa.Value, seen map[ssa.Value]bool) bool {
	if seen[v] {
		return false
	}
	seen[v] = true
	refs := v.Referrers()
	if refs == nil {
		return true
	}
	for _, r := range *refs {
		switch r := r.(type) {
		case *ssa.DebugRef, *ssa.Range, *ssa.Lookup, *ssa.Index, *ssa.If, *ssa.BinOp:
		case *ssa.UnOp:
			// load: the loaded value is a copy
		case *ssa.Store:
			if r.Val == v {
				// stored into an object of this function that does not escape itself
				base := addrBase(r.Addr)
				switch base.(type) {
				case *ssa.Alloc, *ssa.MakeSlice:
					if base != v && !e.valueEscapes(base, seen) {
						continue
					}
				}
				return true
			}
		case *ssa.Return:
			// nothing of this function runs after the return
		case *ssa.FieldAddr, *ssa.IndexAddr, *ssa.Slice, *ssa.Phi, *ssa.ChangeType, *ssa.Convert:
			if e.valueEscapes(r.(ssa.Value), seen) {
				return true
			}
		case *ssa.Call:
			if b, ok := r.Call.Value.(*ssa.Builtin); ok {
				switch b.Name() {
				case "len", "cap", "copy", "print", "println", "min", "max", "clear":
				case "append":
					if r.Call.Args[0] == v {
						if e.valueEscapes(r, seen) {
							return true
						}
					} else if _, isPtrElem := v.Type().Underlying().(*types.Slice); !isPtrElem {
						return true
					}
				default:
					return true
				}
				continue
			}
			key, _ := e.calleeKey(&r.Call)
			if isPureExtern(key) || (e.DB.Funcs[key] != nil && e.DB.Funcs[key].Pure) {
				continue
			}
			if ctr := e.DB.Funcs[key]; ctr != nil && ctr.Opts["nocapture"] == "on" {
				continue
			}
			return true
		default:
			return true
		}
	}
	return false
}

// addrBase walks an address back to the value it is derived from.
func addrBase(a ssa.Value) ssa.Value {
	for {
		switch x := a.(type) {
		case *ssa.FieldAddr:
			a = x.X
		case *ssa.IndexAddr:
			a = x.X
		case *ssa.Slice:
			a = x.X
		default:
			return a
		}
	}
}

// ---------- maps ----------

func mapKeyOK(m *types.Map) bool {
	lv := typeLeaves(m.Key())
	return len(lv) == 1 && lv[0].Sort == "Int" && lv[0].Dims == 0
}

func (e *Enc) mapKeys(m *types.Map) (has *heapKey, ln *heapKey, vals []*heapKey) {
	root := m
	has = e.hkeyNamed(root, "/has", "Bool")
	ln = e.hkeyNamed(root, "/len", "Int")
	for _, lf := range typeLeaves(m.Elem()) {
		if lf.Dims > 0 {
			return has, ln, nil
		}
		vals = append(vals, e.hkeyNamed(root, "/v"+lf.PathKey(), lf.Sort))
	}
	return
}

func (e *Enc) hkeyNamed(root types.Type, path string, leafSort string) *heapKey {
	k := typeKey(root) + path
	if hk, ok := e.hkeys[k]; ok {
		return hk
	}
	hk := &heapKey{Key: k, Root: typeKey(root), Leaf: Leaf{Sort: leafSort}, Sort: arraySort(leafSort, 2)}
	e.hkeys[k] = hk
	return hk
}

func (e *Enc) execMakeMap(ins *ssa.MakeMap, st *State) {
	ref := e.allocRef(st, "map")
	m := ins.Type().Underlying().(*types.Map)
	e.vals[ins] = &Val{T: ins.Type(), L: []string{ref}}
	if !mapKeyOK(m) {
		return
	}
	has, ln, _ := e.mapKeys(m)
	e.heapSet(st, has, "(store "+e.heapGet(st, has)+" "+ref+" ((as const (Array Int Bool)) false))")
	e.heapSet(st, ln, "(store "+e.heapGet(st, ln)+" "+ref+" ((as const (Array Int Int)) 0))")
}

func (e *Enc) execLookup(ins *ssa.Lookup, st *State) {
	x := e.val(ins.X)
	if isString(ins.X.Type()) {
		e.vals[ins] = e.strIndex(x.term(), e.val(ins.Index).term(), ins.Type(), ins.Pos())
		return
	}
	e.guardMapOp(ins.X, st, ins.Pos(), "map read")
	m := ins.X.Type().Underlying().(*types.Map)
	var vt types.Type = m.Elem()
	if !mapKeyOK(m) {
		e.note("map with composite key type %v: lookups are unconstrained", m.Key())
		v := e.freshVal("mv", vt, true)
		if ins.CommaOk {
			ok := e.declare(e.freshName("mok"), "Bool")
			e.vals[ins] = &Val{T: ins.Type(), L: append(append([]string{}, v.L...), ok)}
		} else {
			e.vals[ins] = v
		}
		return
	}
	k := e.val(ins.Index).term()
	has, _, vals := e.mapKeys(m)
	ref := x.term()
	present := sAnd("(not (= "+ref+" 0))", sSel(e.heapGet(st, has), ref, k))
	v := &Val{T: vt}
	z := e.zeroVal(vt)
	if vals == nil {
		v = e.freshVal("mv", vt, true)
	} else {
		for i, hk := range vals {
			v.L = append(v.L, sIte(present, sSel(e.heapGet(st, hk), ref, k), z.L[i]))
		}
		e.annotate(v)
		e.assumeTypeInv(st, v, true)
	}
	if ins.CommaOk {
		e.vals[ins] = &Val{T: ins.Type(), L: append(append([]string{}, v.L...), present)}
	} else {
		e.vals[ins] = v
	}
}

func (e *Enc) execMapUpdate(ins *ssa.MapUpdate, st *State) {
	m := ins.Map.Type().Underlying().(*types.Map)
	x := e.val(ins.Map)
	e.guardMapOp(ins.Map, st, ins.Pos(), "map write")
	if e.opts.Safe["nilmap"] {
		e.oblige("safe.nilmap", "", "(not (= "+x.term()+" 0))", ins.Pos(), "assignment to entry in nil map")
	}
	e.frameCheckRoot(typeKey(m), x.term(), ins.Pos(), st)
	if !mapKeyOK(m) {
		return
	}
	k := e.val(ins.Key).term()
	v := e.val(ins.Value)
	e.markPublished(v)
	e.escapeCheck(ins.Value, v, "stored in map")
	has, ln, vals := e.mapKeys(m)
	ref := x.term()
	was := sSel(e.heapGet(st, has), ref, k)
	e.heapSet(st, ln, sStore(e.heapGet(st, ln), []string{ref, "0"}, sIte(was, sSel(e.heapGet(st, ln), ref, "0"), "(+ "+sSel(e.heapGet(st, ln), ref, "0")+" 1)")))
	e.heapSet(st, has, sStore(e.heapGet(st, has), []string{ref, k}, "true"))
	for i, hk := range vals {
		e.heapSet(st, hk, sStore(e.heapGet(st, hk), []string{ref, k}, v.L[i]))
	}
}

// ---------- range / next ----------

// mapRangeTrackable: no instruction in the loop(s) stepping this map iterator can delete
// from a map of this type (delete builtin, or a call that may write such a map).
func (e *Enc) mapRangeTrackable(r *ssa.Range) bool {
	root := typeKey(r.X.Type().Underlying())
	var li *loopInfo
	for _, ref := range *r.Referrers() {
		nx, ok := ref.(*ssa.Next)
		if !ok {
			continue
		}
		for _, l := range e.loops {
			if l.Body[nx.Block()] && (li == nil || len(l.Body) > len(li.Body)) {
				li = l // outermost loop containing the Next: everything that runs between two Next
			}
		}
	}
	if li == nil {
		return false
	}
	// restrict to the innermost loop that contains the Next (the range loop itself)
	for _, ref := range *r.Referrers() {
		if nx, ok := ref.(*ssa.Next); ok {
			for _, l := range e.loops {
				if l.Body[nx.Block()] && len(l.Body) < len(li.Body) {
					li = l
				}
			}
		}
	}
	for b := range li.Body {
		for _, ins := range b.Instrs {
			switch x := ins.(type) {
			case *ssa.Call:
				if bi, ok := x.Call.Value.(*ssa.Builtin); ok {
					if bi.Name() == "delete" && typeKey(x.Call.Args[0].Type().Underlying()) == root {
						return false
					}
					if bi.Name() == "clear" {
						return false
					}
					continue
				}
				ws := e.callWrites(&x.Call)
				if ws.all || ws.roots[root] {
					return false
				}
			case *ssa.Go:
				ws := e.callWrites(&x.Call)
				if ws.all || ws.roots[root] {
					return false
				}
			case *ssa.Defer:
				return false
			}
		}
	}
	return true
}

func (e *Enc) execRange(ins *ssa.Range, st *State) {
	x := e.val(ins.X)
	if _, isMap := ins.X.Type().Underlying().(*types.Map); isMap {
		e.guardMapOp(ins.X, st, ins.Pos(), "map iteration")
	}
	it := &iterState{X: x, Key: "iter:" + ins.Name()}
	switch ins.X.Type().Underlying().(type) {
	case *types.Basic:
		it.IsStr = true
	case *types.Map:
		it.IsMap = true
	}
	if mt, isMap := ins.X.Type().Underlying().(*types.Map); isMap && mapKeyOK(mt) && e.mapRangeTrackable(ins) {
		// visited-set bookkeeping: sound while nothing is deleted from the map during
		// the loop (each key present at the start and not deleted is produced exactly
		// once; keys inserted meanwhile may or may not be produced)
		it.Vis, it.Had = "vis:"+ins.Name(), "had:"+ins.Name()
		has, _, _ := e.mapKeys(mt)
		st.ghost[it.Vis] = "((as const (Array Int Bool)) false)"
		st.ghost[it.Had] = e.define("had", "(Array Int Bool)", sIte("(= "+x.term()+" 0)", "((as const (Array Int Bool)) false)", sSel(e.heapGet(st, has), x.term())))
	}
	e.iterInfo[ins] = it
	st.ghost[it.Key] = "0"
	e.vals[ins] = &Val{T: ins.Type(), L: []string{"0"}}
}

func (e *Enc) execNext(ins *ssa.Next, st *State) {
	it := e.iterInfo[ins.Iter]
	tt := ins.Type().(*types.Tuple)
	if it == nil {
		e.vals[ins] = e.freshVal("next", ins.Type(), true)
		return
	}
	if it.IsStr {
		e.useStr = true
		s := it.X.term()
		idx, ok := st.ghost[it.Key]
		if !ok {
			idx = e.declare(e.freshName("it"), "Int")
			e.assumeHere("(>= " + idx + " 0)")
		}
		okT := "(< " + idx + " (slen " + s + "))"
		// rune value and width
		r := e.declare(e.freshName("rune"), "Int")
		w := e.declare(e.freshName("rw"), "Int")
		b0 := "(sat " + s + " " + idx + ")"
		e.assumeHere(sImp(okT, "(and (<= 0 "+b0+") (<= "+b0+" 255) (ite (< "+b0+" 128) (and (= "+r+" "+b0+") (= "+w+" 1)) (and (>= "+r+" 128) (<= "+r+" 1114111) (>= "+w+" 1) (<= "+w+" 4) (<= (+ "+idx+" "+w+") (slen "+s+")))))"))
		nxt := e.define("itn", "Int", sIte(okT, "(+ "+idx+" "+w+")", idx))
		st.ghost[it.Key] = nxt
		out := &Val{T: tt, L: []string{okT, idx}}
		if tt.At(2).Type() != nil && tt.At(2).Type() != types.Typ[types.Invalid] {
			out.L = append(out.L, r)
		} else {
			out.L = append(out.L, r)
		}
		e.vals[ins] = out
		return
	}
	// map iteration: arbitrary present key
	m := ins.Iter.(*ssa.Range).X.Type().Underlying().(*types.Map)
	okT := e.declare(e.freshName("itok"), "Bool")
	kv := e.freshVal("itk", m.Key(), true)
	var vv *Val
	if mapKeyOK(m) {
		has, _, vals := e.mapKeys(m)
		ref := it.X.term()
		e.assumeHere(sImp(okT, sAnd("(not (= "+ref+" 0))", sSel(e.heapGet(st, has), ref, kv.term()))))
		if it.Vis != "" {
			if vis, ok := st.ghost[it.Vis]; ok {
				had := st.ghost[it.Had]
				e.assumeHere(sImp(okT, "(not (select "+vis+" "+kv.term()+"))"))
				e.assumeHere(sImp(sNot(okT), "(forall ((k!v Int)) (! (=> (select "+had+" k!v) (select "+vis+" k!v)) :pattern ((select "+vis+" k!v)) :pattern ((select "+had+" k!v))))"))
				st.ghost[it.Vis] = e.define("vis", "(Array Int Bool)", sIte(okT, "(store "+vis+" "+kv.term()+" true)", vis))
			}
		}
		if vals != nil {
			vv = &Val{T: m.Elem()}
			for _, hk := range vals {
				vv.L = append(vv.L, sSel(e.heapGet(st, hk), ref, kv.term()))
			}
			e.annotate(vv)
			e.assumeTypeInv(st, vv, true)
		}
	}
	if vv == nil {
		vv = e.freshVal("itv", m.Elem(), true)
	}
	out := &Val{T: tt, L: []string{okT}}
	out.L = append(out.L, kv.L...)
	out.L = append(out.L, vv.L...)
	e.vals[ins] = out
}

// Next's tuple type has "invalid type" components for unused parts; typeLeaves
// must give them one leaf so offsets line up. (types.Typ[Invalid] is a Basic.)

// ---------- concurrency-related instructions (sequential abstraction) ----------

func (e *Enc) execSelect(ins *ssa.Select, st *State) {
	if e.ctr != nil && e.ctr.Opts["nonblocking"] == "on" && ins.Blocking {
		e.oblige("nonblock", "", "false", ins.Pos(), "select without default can block")
	}
	v := e.freshVal("sel", ins.Type(), true)
	n := len(ins.States)
	lo := "0"
	if !ins.Blocking {
		lo = "(- 1)"
	}
	e.assumeHere(fmt.Sprintf("(and (<= %s %s) (< %s %d))", lo, v.L[0], v.L[0], n))
	e.vals[ins] = v
	for i, s := range ins.States {
		if s.Dir == types.SendOnly {
			e.chanSendHook(s.Chan, s.Send, "(= "+v.L[0]+" "+fmt.Sprint(i)+")", ins.Pos(), st)
		}
	}
	e.afterBlockingOp(st, "select")
}

func (e *Enc) execSend(ins *ssa.Send, st *State) {
	e.markPublished(e.val(ins.X))
	if e.ctr != nil && e.ctr.Opts["nonblocking"] == "on" {
		// a plain send blocks unless the channel is a buffered channel made by this
		// call that still has room
		var alts []string
		ch := e.val(ins.Chan).term()
		for ref, room := range e.chanRoom {
			if room > 0 {
				alts = append(alts, "(= "+ch+" "+ref+")")
			}
		}
		e.oblige("nonblock", "", sOr(alts...), ins.Pos(), "send cannot block: the channel is a fresh buffered channel with room")
		for ref := range e.chanRoom {
			e.chanRoom[ref]--
		}
	}
	e.chanSendHook(ins.Chan, ins.X, "true", ins.Pos(), st)
	e.escapeCheck(ins.X, e.val(ins.X), "sent on channel")
	e.afterBlockingOp(st, "send")
}

func (e *Enc) chanSendHook(ch, x ssa.Value, cond string, pos token.Pos, st *State) {
	e.fireAssertAt("send", chanName(ch), pos, st, map[string]*Val{"sent": e.val(x)}, cond)
}

func chanName(ch ssa.Value) string {
	// best effort: field name of the channel
	switch c := ch.(type) {
	case *ssa.UnOp:
		if fa, ok := c.X.(*ssa.FieldAddr); ok {
			st := fa.X.Type().Underlying().(*types.Pointer).Elem().Underlying().(*types.Struct)
			return st.Field(fa.Field).Name()
		}
		// a captured or local channel variable: its source name
		switch x := c.X.(type) {
		case *ssa.FreeVar:
			return x.Name()
		case *ssa.Alloc:
			if x.Comment != "" {
				return x.Comment
			}
		}
	case *ssa.Field:
		st := c.X.Type().Underlying().(*types.Struct)
		return st.Field(c.Field).Name()
	case *ssa.Parameter:
		return c.Name()
	case *ssa.FreeVar:
		return c.Name()
	}
	return ch.Name()
}

func (e *Enc) afterBlockingOp(st *State, what string) {
	if e.concurrent() {
		e.havocShared(st, what)
	}
}

func (e *Enc) isSharedAddr(addr ssa.Value) bool { return false }

func (e *Enc) havocShared(st *State, what string) {
	// everything not owned by this function may change while it is blocked
	e.havocAll(st, what)
}

func (e *Enc) execGo(ins *ssa.Go, st *State) {
	e.fireAssertAtCall(&ins.Call, ins.Pos(), st, true)
	defer func() {
		for _, a := range ins.Call.Args {
			e.markPublished(e.val(a))
		}
		e.markPublished(e.val(ins.Call.Value))
	}()
	// the spawned function's preconditions are owed by the go statement (this is how
	// a held lock is handed over to a goroutine)
	{
		c := &ins.Call
		key, fn := e.calleeKey(c)
		var cinfo *closureInfo
		if mc, ok := c.Value.(*ssa.MakeClosure); ok {
			cinfo = e.val(mc).Closure
		} else if fv, ok := e.vals[c.Value]; ok && fv.Closure != nil {
			cinfo = fv.Closure
			if key == "" {
				fn = cinfo.Fn
				key = FuncKey(fn)
			}
		}
		if ctr := e.DB.Funcs[key]; ctr != nil && len(ctr.Requires) > 0 {
			env := map[string]envEntry{}
			var args []*Val
			for _, a := range c.Args {
				args = append(args, e.val(a))
			}
			if fn != nil {
				for i, p := range fn.Params {
					if i < len(args) {
						env[p.Name()] = envEntry{V: args[i]}
					}
				}
				if cinfo != nil {
					for i, fv := range fn.FreeVars {
						if i < len(cinfo.Bindings) {
							_, isPtr := fv.Type().Underlying().(*types.Pointer)
							env[fv.Name()] = envEntry{V: cinfo.Bindings[i], IsAddr: isPtr}
						}
					}
				}
			}
			e.callOrd[key]++
			for i, rq := range ctr.Requires {
				f := e.evalBoolCtx(rq, &specCtx{env: env, st: st, old: st, pkg: ctr.Pkg})
				e.oblige("pre", fmt.Sprintf("pre@go:%s.%d#%d", ShortKey(key), e.callOrd[key], i+1), f, ins.Pos(), "precondition of the spawned "+ShortKey(key)+": "+rq.Src)
			}
		}
	}
	ws := e.callWrites(&ins.Call)
	_ = ws
	// the new goroutine runs concurrently: its effects are covered by the
	// concurrent-mode havoc at blocking points, or ignored in sequential mode
	// (stated in the evidence as "go statements: spawned code not part of this
	// function's proof").
	e.note("go statement: the spawned function is verified separately; its effects on this function's later reads are not modelled unless opt concurrent on")
}

func (e *Enc) execDefer(ins *ssa.Defer, st *State) {
	// arguments are evaluated now
	var args []*Val
	for _, a := range ins.Call.Args {
		args = append(args, e.val(a))
	}
	st.ghost[fmt.Sprintf("b:defer:%d:%d", ins.Block().Index, instrIndex(ins))] = "true"
}

func instrIndex(ins ssa.Instruction) int {
	for i, x := range ins.Block().Instrs {
		if x == ins {
			return i
		}
	}
	return -1
}

func (e *Enc) execRunDefers(ins *ssa.RunDefers, st *State) {
	// collect defers in reverse order
	var ds []*ssa.Defer
	for _, b := range e.fn.Blocks {
		for _, i2 := range b.Instrs {
			if d, ok := i2.(*ssa.Defer); ok {
				ds = append(ds, d)
			}
		}
	}
	for i := len(ds) - 1; i >= 0; i-- {
		d := ds[i]
		key := fmt.Sprintf("b:defer:%d:%d", d.Block().Index, instrIndex(d))
		flag, ok := st.ghost[key]
		if !ok {
			if _, executed := e.out[d.Block()]; !executed && d.Block() != e.curBlock {
				continue
			}
			if !d.Block().Dominates(ins.Block()) {
				flag = "maybe"
			} else {
				flag = "true"
			}
		}
		if flag == "true" {
			e.callCommon(&d.Call, d, st, true)
		} else {
			// conditionally executed defer: over-approximate by havoc of its writes
			ws := e.callWrites(&d.Call)
			e.havocRoots(st, ws, true)
			for k := range st.ghost {
				if strings.HasPrefix(k, "held:") {
					st.ghost[k] = e.declare(e.freshName("gh"), "Bool")
				}
			}
		}
	}
}
