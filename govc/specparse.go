package main

import (
	"fmt"
	"strings"
	"unicode"
)

// Spec expression AST. The concrete syntax is Go's expression syntax plus
//   P ==> Q, P <==> Q, forall x T, y U :: P, exists x T :: P, old(e), result, result.N,
//   ite(c, a, b), a[lo:hi].
type SExpr interface{ sexpr() }

type (
	SLit   struct{ Kind, Val string } // Kind: int, bool, string, char, nil
	SIdent struct{ Name string }
	SSel   struct {
		X    SExpr
		Name string
	}
	SIndex struct{ X, I SExpr }
	SSlice struct{ X, Lo, Hi SExpr }
	SCall  struct {
		Fn   string // possibly qualified: pkg.Name or method-ish
		Recv SExpr  // non-nil for x.M(args)
		Args []SExpr
	}
	SUnary  struct {
		Op string
		X  SExpr
	}
	SBinary struct {
		Op   string
		X, Y SExpr
	}
	SQuant struct {
		Forall bool
		Vars   []SVar
		Body   SExpr
	}
	SVar struct{ Name, Type string }
)

func (SLit) sexpr()    {}
func (SIdent) sexpr()  {}
func (SSel) sexpr()    {}
func (SIndex) sexpr()  {}
func (SSlice) sexpr()  {}
func (SCall) sexpr()   {}
func (SUnary) sexpr()  {}
func (SBinary) sexpr() {}
func (SQuant) sexpr()  {}

type stok struct {
	kind string // id, int, str, chr, op, eof
	val  string
}

func slex(src string) ([]stok, error) {
	var out []stok
	i := 0
	ops := []string{"<==>", "==>", "::", ":=", "&&", "||", "==", "!=", "<=", ">=", "<<", ">>", "&^",
		"+", "-", "*", "/", "%", "&", "|", "^", "<", ">", "!", "(", ")", "[", "]", ",", ".", ":", "{", "}"}
	for i < len(src) {
		c := src[i]
		switch {
		case c == ' ' || c == '\t' || c == '\n':
			i++
		case unicode.IsLetter(rune(c)) || c == '_' || c == '$':
			j := i
			for j < len(src) && (unicode.IsLetter(rune(src[j])) || unicode.IsDigit(rune(src[j])) || src[j] == '_' || src[j] == '$') {
				j++
			}
			out = append(out, stok{"id", src[i:j]})
			i = j
		case c >= '0' && c <= '9':
			j := i
			if strings.HasPrefix(src[i:], "0x") || strings.HasPrefix(src[i:], "0X") {
				j = i + 2
				for j < len(src) && (isHex(src[j]) || src[j] == '_') {
					j++
				}
			} else {
				for j < len(src) && (src[j] >= '0' && src[j] <= '9' || src[j] == '_') {
					j++
				}
				// float literal: digits '.' digits
				if j+1 < len(src) && src[j] == '.' && src[j+1] >= '0' && src[j+1] <= '9' {
					j++
					for j < len(src) && src[j] >= '0' && src[j] <= '9' {
						j++
					}
					out = append(out, stok{"float", src[i:j]})
					i = j
					continue
				}
			}
			out = append(out, stok{"int", strings.ReplaceAll(src[i:j], "_", "")})
			i = j
		case c == '"':
			j := i + 1
			var sb strings.Builder
			for j < len(src) && src[j] != '"' {
				if src[j] == '\\' && j+1 < len(src) {
					j++
					switch src[j] {
					case 'n':
						sb.WriteByte('\n')
					case 't':
						sb.WriteByte('\t')
					case '0':
						sb.WriteByte(0)
					case 'x':
						if j+2 < len(src) {
							var v int
							fmt.Sscanf(src[j+1:j+3], "%x", &v)
							sb.WriteByte(byte(v))
							j += 2
						}
					default:
						sb.WriteByte(src[j])
					}
				} else {
					sb.WriteByte(src[j])
				}
				j++
			}
			if j >= len(src) {
				return nil, fmt.Errorf("unterminated string in %q", src)
			}
			out = append(out, stok{"str", sb.String()})
			i = j + 1
		case c == '\'':
			j := i + 1
			var v byte
			if j < len(src) && src[j] == '\\' {
				j++
				switch src[j] {
				case 'n':
					v = '\n'
				case 't':
					v = '\t'
				case '0':
					v = 0
				case '\\':
					v = '\\'
				case '\'':
					v = '\''
				default:
					v = src[j]
				}
				j++
			} else if j < len(src) {
				v = src[j]
				j++
			}
			if j >= len(src) || src[j] != '\'' {
				return nil, fmt.Errorf("bad char literal in %q", src)
			}
			out = append(out, stok{"int", fmt.Sprint(int(v))})
			i = j + 1
		default:
			matched := false
			for _, op := range ops {
				if strings.HasPrefix(src[i:], op) {
					out = append(out, stok{"op", op})
					i += len(op)
					matched = true
					break
				}
			}
			if !matched {
				return nil, fmt.Errorf("unexpected character %q in %q", c, src)
			}
		}
	}
	out = append(out, stok{"eof", ""})
	return out, nil
}

func isHex(c byte) bool {
	return c >= '0' && c <= '9' || c >= 'a' && c <= 'f' || c >= 'A' && c <= 'F'
}

type sparser struct {
	toks []stok
	pos  int
	src  string
}

func ParseSpec(src string) (e SExpr, err error) {
	toks, err := slex(src)
	if err != nil {
		return nil, err
	}
	p := &sparser{toks: toks, src: src}
	defer func() {
		if r := recover(); r != nil {
			if pe, ok := r.(specErr); ok {
				err = fmt.Errorf("spec parse error: %s in %q", string(pe), src)
				return
			}
			panic(r)
		}
	}()
	e = p.parseExpr()
	if p.peek().kind != "eof" {
		p.fail("trailing tokens at %q", p.peek().val)
	}
	return e, nil
}

type specErr string

func (p *sparser) fail(f string, a ...any) { panic(specErr(fmt.Sprintf(f, a...))) }
func (p *sparser) peek() stok              { return p.toks[p.pos] }
func (p *sparser) next() stok              { t := p.toks[p.pos]; p.pos++; return t }
func (p *sparser) isOp(op string) bool {
	t := p.peek()
	return t.kind == "op" && t.val == op
}
func (p *sparser) accept(op string) bool {
	if p.isOp(op) {
		p.pos++
		return true
	}
	return false
}
func (p *sparser) expect(op string) {
	if !p.accept(op) {
		p.fail("expected %q, got %q", op, p.peek().val)
	}
}

// expr := quant | iff
func (p *sparser) parseExpr() SExpr {
	t := p.peek()
	if t.kind == "id" && (t.val == "forall" || t.val == "exists") {
		p.next()
		var vars []SVar
		for {
			n := p.next()
			if n.kind != "id" {
				p.fail("expected variable name in quantifier")
			}
			ty := p.parseTypeName()
			vars = append(vars, SVar{n.val, ty})
			if p.accept(",") {
				continue
			}
			break
		}
		p.expect("::")
		body := p.parseExpr()
		return SQuant{Forall: t.val == "forall", Vars: vars, Body: body}
	}
	return p.parseIff()
}

func (p *sparser) parseTypeName() string {
	var sb strings.Builder
	for p.isOp("[") || p.isOp("]") || p.isOp("*") {
		sb.WriteString(p.next().val)
	}
	n := p.next()
	if n.kind != "id" {
		p.fail("expected type name")
	}
	sb.WriteString(n.val)
	if p.isOp(".") {
		p.next()
		m := p.next()
		sb.WriteString("." + m.val)
	}
	return sb.String()
}

func (p *sparser) parseIff() SExpr {
	x := p.parseImp()
	for p.accept("<==>") {
		y := p.parseImp()
		x = SBinary{"<==>", x, y}
	}
	return x
}

func (p *sparser) parseImp() SExpr {
	x := p.parseBin(1)
	if p.accept("==>") {
		// right associative; the consequent may itself be a quantifier
		var y SExpr
		t := p.peek()
		if t.kind == "id" && (t.val == "forall" || t.val == "exists") {
			y = p.parseExpr()
		} else {
			y = p.parseImp()
		}
		return SBinary{"==>", x, y}
	}
	return x
}

var sprec = map[string]int{
	"||": 1, "&&": 2,
	"==": 3, "!=": 3, "<": 3, "<=": 3, ">": 3, ">=": 3,
	"+": 4, "-": 4, "|": 4, "^": 4,
	"*": 5, "/": 5, "%": 5, "<<": 5, ">>": 5, "&": 5, "&^": 5,
}

func (p *sparser) parseBin(minPrec int) SExpr {
	x := p.parseUnary()
	for {
		t := p.peek()
		if t.kind != "op" {
			return x
		}
		pr, ok := sprec[t.val]
		if !ok || pr < minPrec {
			return x
		}
		p.next()
		var y SExpr
		// allow a quantifier as right operand of && / ||
		nt := p.peek()
		if nt.kind == "id" && (nt.val == "forall" || nt.val == "exists") {
			y = p.parseExpr()
		} else {
			y = p.parseBin(pr + 1)
		}
		x = SBinary{t.val, x, y}
	}
}

func (p *sparser) parseUnary() SExpr {
	t := p.peek()
	if t.kind == "id" && (t.val == "forall" || t.val == "exists") {
		return p.parseExpr()
	}
	if t.kind == "op" && (t.val == "!" || t.val == "-" || t.val == "^" || t.val == "*" || t.val == "&") {
		p.next()
		return SUnary{t.val, p.parseUnary()}
	}
	return p.parsePostfix(p.parsePrimary())
}

func (p *sparser) parsePrimary() SExpr {
	t := p.next()
	switch t.kind {
	case "int":
		return SLit{"int", t.val}
	case "float":
		return SLit{"float", t.val}
	case "str":
		return SLit{"string", t.val}
	case "id":
		switch t.val {
		case "true", "false":
			return SLit{"bool", t.val}
		case "nil":
			return SLit{"nil", ""}
		}
		return SIdent{t.val}
	case "op":
		if t.val == "(" {
			e := p.parseExpr()
			p.expect(")")
			return e
		}
	}
	p.fail("unexpected token %q", t.val)
	return nil
}

func (p *sparser) parsePostfix(x SExpr) SExpr {
	for {
		switch {
		case p.accept("."):
			n := p.next()
			if n.kind != "id" && n.kind != "int" {
				p.fail("expected field name after '.'")
			}
			if p.isOp("(") {
				// method-style or qualified call
				p.next()
				args := p.parseArgs()
				if id, ok := x.(SIdent); ok {
					x = SCall{Fn: id.Name + "." + n.val, Recv: x, Args: args}
				} else {
					x = SCall{Fn: "." + n.val, Recv: x, Args: args}
				}
			} else {
				x = SSel{x, n.val}
			}
		case p.accept("["):
			if p.accept(":") {
				hi := p.parseExpr()
				p.expect("]")
				x = SSlice{x, nil, hi}
				continue
			}
			i := p.parseExpr()
			if p.accept(":") {
				var hi SExpr
				if !p.isOp("]") {
					hi = p.parseExpr()
				}
				p.expect("]")
				x = SSlice{x, i, hi}
				continue
			}
			p.expect("]")
			x = SIndex{x, i}
		case p.isOp("("):
			id, ok := x.(SIdent)
			if !ok {
				return x
			}
			p.next()
			args := p.parseArgs()
			x = SCall{Fn: id.Name, Args: args}
		default:
			return x
		}
	}
}

func (p *sparser) parseArgs() []SExpr {
	var args []SExpr
	if p.accept(")") {
		return args
	}
	for {
		args = append(args, p.parseExpr())
		if p.accept(",") {
			continue
		}
		p.expect(")")
		return args
	}
}

func specString(e SExpr) string {
	switch e := e.(type) {
	case SLit:
		if e.Kind == "string" {
			return fmt.Sprintf("%q", e.Val)
		}
		if e.Kind == "nil" {
			return "nil"
		}
		return e.Val
	case SIdent:
		return e.Name
	case SSel:
		return specString(e.X) + "." + e.Name
	case SIndex:
		return specString(e.X) + "[" + specString(e.I) + "]"
	case SSlice:
		lo, hi := "", ""
		if e.Lo != nil {
			lo = specString(e.Lo)
		}
		if e.Hi != nil {
			hi = specString(e.Hi)
		}
		return specString(e.X) + "[" + lo + ":" + hi + "]"
	case SCall:
		var a []string
		for _, x := range e.Args {
			a = append(a, specString(x))
		}
		if e.Recv != nil && strings.HasPrefix(e.Fn, ".") {
			return specString(e.Recv) + e.Fn + "(" + strings.Join(a, ", ") + ")"
		}
		return e.Fn + "(" + strings.Join(a, ", ") + ")"
	case SUnary:
		return e.Op + specString(e.X)
	case SBinary:
		return "(" + specString(e.X) + " " + e.Op + " " + specString(e.Y) + ")"
	case SQuant:
		q := "exists"
		if e.Forall {
			q = "forall"
		}
		var vs []string
		for _, v := range e.Vars {
			vs = append(vs, v.Name+" "+v.Type)
		}
		return "(" + q + " " + strings.Join(vs, ", ") + " :: " + specString(e.Body) + ")"
	}
	return "?"
}
