package main

import (
	"runtime"
	"bytes"
	"context"
	"fmt"
	"os"
	"os/exec"
	"path/filepath"
	"regexp"
	"strings"
	"sync"
	"time"
)

const preludeCore = `
(define-fun wrapu8 ((x Int)) Int (ite (> x 255) (- x 256) (ite (< x 0) (+ x 256) x)))
(define-fun wrapu16 ((x Int)) Int (ite (> x 65535) (- x 65536) (ite (< x 0) (+ x 65536) x)))
(define-fun wrapu32 ((x Int)) Int (ite (> x 4294967295) (- x 4294967296) (ite (< x 0) (+ x 4294967296) x)))
(define-fun wrapu64 ((x Int)) Int (ite (> x 18446744073709551615) (- x 18446744073709551616) (ite (< x 0) (+ x 18446744073709551616) x)))
(define-fun wraps8 ((x Int)) Int (ite (> x 127) (- x 256) (ite (< x (- 128)) (+ x 256) x)))
(define-fun wraps16 ((x Int)) Int (ite (> x 32767) (- x 65536) (ite (< x (- 32768)) (+ x 65536) x)))
(define-fun wraps32 ((x Int)) Int (ite (> x 2147483647) (- x 4294967296) (ite (< x (- 2147483648)) (+ x 4294967296) x)))
(define-fun wraps64 ((x Int)) Int (ite (> x 9223372036854775807) (- x 18446744073709551616) (ite (< x (- 9223372036854775808)) (+ x 18446744073709551616) x)))
(define-fun wrapms8 ((x Int)) Int (let ((m (mod x 256))) (ite (> m 127) (- m 256) m)))
(define-fun wrapms16 ((x Int)) Int (let ((m (mod x 65536))) (ite (> m 32767) (- m 65536) m)))
(define-fun wrapms32 ((x Int)) Int (let ((m (mod x 4294967296))) (ite (> m 2147483647) (- m 4294967296) m)))
(define-fun wrapms64 ((x Int)) Int (let ((m (mod x 18446744073709551616))) (ite (> m 9223372036854775807) (- m 18446744073709551616) m)))
(define-fun gdiv ((a Int) (b Int)) Int (ite (>= a 0) (ite (> b 0) (div a b) (- (div a (- b)))) (ite (> b 0) (- (div (- a) b)) (div (- a) (- b)))))
(define-fun gmod ((a Int) (b Int)) Int (- a (* b (gdiv a b))))
(declare-fun itag (Int) Int)
(declare-fun ifaceobj (Int) Int)
(declare-fun umod (Int Int) Int)
(declare-fun udiv (Int Int) Int)
(declare-fun irow (Int Int Int) Int)
(declare-fun irow_tag (Int) Int)
(declare-fun irow_ref (Int) Int)
(declare-fun irow_idx (Int) Int)
(declare-fun pow2 (Int) Int)
(declare-fun ubvand (Int Int) Int)
(declare-fun ubvor (Int Int) Int)
(declare-fun ubvxor (Int Int) Int)
(declare-fun ubvandnot (Int Int) Int)
(declare-sort F 0)
(declare-const fzero F)
(declare-fun fadd (F F) F)
(declare-fun fsub (F F) F)
(declare-fun fmul (F F) F)
(declare-fun fdiv (F F) F)
(declare-fun fneg (F) F)
(declare-fun flt (F F) Bool)
(declare-fun fle (F F) Bool)
(declare-fun feq (F F) Bool)
(declare-fun i2f (Int) F)
(declare-fun f2i8 (F) Int)
(declare-fun f2i16 (F) Int)
(declare-fun f2i32 (F) Int)
(declare-fun f2i64 (F) Int)
(declare-fun fconv32 (F) F)
(declare-fun fconv64 (F) F)
(declare-fun slen (Int) Int)
(declare-fun sat (Int Int) Int)
(declare-fun ssub (Int Int Int) Int)
(declare-fun scat (Int Int) Int)
(declare-fun slt (Int Int) Bool)
(declare-const sempty Int)
(assert (= (slen sempty) 0))
(assert (forall ((s Int)) (! (and (>= (slen s) 0) (<= (slen s) 4611686018427387904)) :pattern ((slen s)))))
(assert (= (itag 0) 0))
`

type SolveResult struct {
	Status  string // unsat | sat | unknown | timeout | error
	Solver  string
	Seconds float64
	Output  string
	Tried   []string
}

type SolverCfg struct {
	Timeout time.Duration
	WorkDir string
	Seed    int
}

var solverBins = map[string][]string{
	"z3-new": {"z3-new", "-smt2"},
	"z3":     {"/usr/bin/z3", "-smt2"},
	"cvc5":   {"cvc5", "--lang=smt2", "--incremental"},
}

// symbolsOf lists the declared symbols occurring in a formula.
func (e *Enc) symbolsOf(f string) []string {
	var out []string
	i := 0
	n := len(f)
	for i < n {
		c := f[i]
		switch {
		case c == '|':
			j := i + 1
			for j < n && f[j] != '|' {
				j++
			}
			tok := f[i:min(j+1, n)]
			if e.declSet[tok] {
				out = append(out, tok)
			}
			i = j + 1
		case c == '(' || c == ')' || c == ' ' || c == '\n' || c == '\t':
			i++
		default:
			j := i
			for j < n && f[j] != '(' && f[j] != ')' && f[j] != ' ' && f[j] != '\n' && f[j] != '|' {
				j++
			}
			tok := f[i:j]
			if e.declSet[tok] {
				out = append(out, tok)
			}
			i = j
		}
	}
	return out
}

type assertInfo struct {
	syms    []string
	defines string // non-empty for (= NAME term) with NAME a declared constant
}

func (e *Enc) assertInfos() []assertInfo {
	for len(e.ainfo) < len(e.asserts) {
		a := e.asserts[len(e.ainfo)]
		info := assertInfo{syms: e.symbolsOf(a)}
		if strings.HasPrefix(a, "(= ") {
			rest := a[3:]
			k := strings.IndexByte(rest, ' ')
			if strings.HasPrefix(rest, "|") {
				k = strings.IndexByte(rest[1:], '|') + 2
			}
			if k > 0 && k < len(rest) {
				name := rest[:k]
				if e.declSet[name] && !strings.HasPrefix(name, "(") && e.isConstDecl[name] {
					info.defines = name
				}
			}
		}
		e.ainfo = append(e.ainfo, info)
	}
	return e.ainfo
}

func isControlSym(s string) bool {
	return strings.HasPrefix(s, "pc!") || strings.HasPrefix(s, "e!")
}

// sliceAsserts selects the assumptions in the cone of influence of the goal.
// Dropping assumptions can only make an obligation harder to prove, never unsound.
// sliceStrict: backward closure over definitions from the goal, then only those
// assumptions that talk exclusively about symbols in that closure (plus at most
// `slack` other symbols, which then join the closure). Much smaller queries.
func (e *Enc) sliceStrict(o *Obligation, slack int) []int {
	infos := e.assertInfos()
	relevant := map[string]bool{}
	for _, s := range e.symbolsOf(o.Goal) {
		relevant[s] = true
	}
	included := make([]bool, o.Prefix)
	defOf := map[string]int{}
	for i := 0; i < o.Prefix; i++ {
		if d := infos[i].defines; d != "" {
			defOf[d] = i
		}
	}
	var closeDefs func()
	closeDefs = func() {
		changed := true
		for changed {
			changed = false
			for s := range relevant {
				if i, ok := defOf[s]; ok && !included[i] {
					included[i] = true
					changed = true
					for _, t := range infos[i].syms {
						relevant[t] = true
					}
				}
			}
		}
	}
	closeDefs()
	for round := 0; round < 4; round++ {
		added := false
		for i := 0; i < o.Prefix; i++ {
			if included[i] || infos[i].defines != "" {
				continue
			}
			extra := 0
			hit := false
			for _, s := range infos[i].syms {
				if relevant[s] {
					if !isControlSym(s) {
						hit = true
					}
				} else if !isControlSym(s) {
					extra++
				}
			}
			if len(infos[i].syms) == 0 || (hit && extra <= slack) {
				included[i] = true
				added = true
				for _, s := range infos[i].syms {
					relevant[s] = true
				}
			}
		}
		closeDefs()
		if !added {
			break
		}
	}
	var idx []int
	for i, b := range included {
		if b {
			idx = append(idx, i)
		}
	}
	return idx
}

func (e *Enc) sliceAsserts(o *Obligation) []int {
	infos := e.assertInfos()
	relevant := map[string]bool{}
	for _, s := range e.symbolsOf(o.Goal) {
		relevant[s] = true
	}
	included := make([]bool, o.Prefix)
	changed := true
	for changed {
		changed = false
		for i := 0; i < o.Prefix; i++ {
			if included[i] {
				continue
			}
			in := false
			if d := infos[i].defines; d != "" {
				in = relevant[d]
			} else {
				nonCtl := 0
				for _, s := range infos[i].syms {
					if isControlSym(s) {
						continue
					}
					nonCtl++
					if relevant[s] {
						in = true
						break
					}
				}
				if nonCtl == 0 {
					for _, s := range infos[i].syms {
						if relevant[s] {
							in = true
							break
						}
					}
					if len(infos[i].syms) == 0 {
						in = true
					}
				}
			}
			if in {
				included[i] = true
				changed = true
				for _, s := range infos[i].syms {
					relevant[s] = true
				}
			}
		}
	}
	var idx []int
	for i, b := range included {
		if b {
			idx = append(idx, i)
		}
	}
	return idx
}

func buildSMT(o *Obligation, withModel bool) string { return buildSMTLevel(o, withModel, 1) }

// recDeclNeeded: the recursive function is used by another definition that is kept.
func recDeclNeeded(decls []string, name, body string) bool {
	for _, d := range decls {
		if strings.HasPrefix(d, "(define-fun") && !strings.HasPrefix(d, "(define-fun-rec "+name+" ") && strings.Contains(d, name) {
			// d mentions name: needed if d itself is needed
			rest := strings.TrimPrefix(strings.TrimPrefix(d, "(define-fun-rec "), "(define-fun ")
			dn := rest
			if k := strings.Index(rest, " ("); k > 0 {
				dn = rest[:k]
			}
			if strings.Contains(body, dn) {
				return true
			}
		}
	}
	return false
}

// level 0: strict slice; 1: inclusive cone of influence; 2: everything
func buildSMTLevel(o *Obligation, withModel bool, level int) string {
	e := o.enc
	var sb strings.Builder
	if withModel {
		sb.WriteString("(set-option :produce-models true)\n")
	}
	sb.WriteString("(set-logic ALL)\n")
	sb.WriteString(preludeCore)
	declPos := sb.Len()
	_ = declPos
	var body strings.Builder
	writeBody := func(sb *strings.Builder) {
	if o.Expect == "sat" || o.Expect == "sat?" || os.Getenv("GOVC_NOSLICE") != "" || level >= 2 {
		for _, a := range e.asserts[:o.Prefix] {
			sb.WriteString("(assert ")
			sb.WriteString(a)
			sb.WriteString(")\n")
		}
	} else {
		e.sliceMu.Lock()
		var idx []int
		if level == 0 {
			idx = e.sliceStrict(o, 1)
		} else {
			idx = e.sliceAsserts(o)
		}
		e.sliceMu.Unlock()
		for _, i := range idx {
			sb.WriteString("(assert ")
			sb.WriteString(e.asserts[i])
			sb.WriteString(")\n")
		}
	}
	sb.WriteString("(assert ")
	sb.WriteString(o.Goal)
	sb.WriteString(")\n(check-sat)\n")
	}
	writeBody(&body)
	bodyText := body.String()
	// recursive spec functions slow every query down: define only those that occur
	for _, d := range e.decls {
		if strings.HasPrefix(d, "(define-fun-rec ") {
			rest := d[len("(define-fun-rec "):]
			name := rest
			if k := strings.Index(rest, " ("); k > 0 {
				name = rest[:k]
			}
			if !strings.Contains(bodyText, name) && !recDeclNeeded(e.decls, name, bodyText) {
				continue
			}
		}
		sb.WriteString(d)
		sb.WriteByte('\n')
	}
	sb.WriteString(bodyText)
	if withModel && len(o.Witness) > 0 {
		sb.WriteString("(get-value (")
		for _, w := range o.Witness {
			sb.WriteString(w.Term)
			sb.WriteByte(' ')
		}
		sb.WriteString("))\n")
	}
	return sb.String()
}

// loadFactor: solver time limits are wall-clock; on an oversubscribed machine (load average
// above the number of CPUs) they are stretched by the oversubscription factor (at most 8x),
// so that a proof found in 1 s on an idle machine is not reported as a timeout under load.
var loadFactorOnce sync.Once
var loadFactorVal = 1.0

func loadFactor() float64 {
	loadFactorOnce.Do(func() {
		data, err := os.ReadFile("/proc/loadavg")
		if err != nil {
			return
		}
		var l1 float64
		fmt.Sscanf(string(data), "%f", &l1)
		f := l1 / float64(runtime.NumCPU())
		if f > 1 {
			if f > 8 {
				f = 8
			}
			loadFactorVal = f
		}
	})
	return loadFactorVal
}

func runSolver(ctx context.Context, cfgName, file string, timeout time.Duration, seed int) (string, string, float64) {
	timeout = time.Duration(float64(timeout) * loadFactor())
	name := cfgName
	var extra []string
	if i := strings.Index(cfgName, "+"); i >= 0 {
		name = cfgName[:i]
		extra = strings.Split(cfgName[i+1:], "+")
	}
	args := append([]string{}, solverBins[name][1:]...)
	args = append(args, extra...)
	switch name {
	case "z3", "z3-new":
		args = append(args, fmt.Sprintf("-T:%d", int(timeout.Seconds())+1), fmt.Sprintf("smt.random_seed=%d", seed), fmt.Sprintf("sat.random_seed=%d", seed))
	case "cvc5":
		args = append(args, fmt.Sprintf("--tlimit=%d", timeout.Milliseconds()), fmt.Sprintf("--seed=%d", seed))
	}
	args = append(args, file)
	cctx, cancel := context.WithTimeout(ctx, timeout+2*time.Second)
	defer cancel()
	cmd := exec.CommandContext(cctx, solverBins[name][0], args...)
	var out bytes.Buffer
	cmd.Stdout = &out
	cmd.Stderr = &out
	t0 := time.Now()
	_ = cmd.Run()
	dt := time.Since(t0).Seconds()
	text := out.String()
	first := strings.TrimSpace(text)
	if i := strings.Index(first, "\n"); i >= 0 {
		first = strings.TrimSpace(first[:i])
	}
	switch first {
	case "unsat", "sat", "unknown":
		return first, text, dt
	}
	if cctx.Err() != nil || strings.Contains(text, "timeout") || strings.Contains(text, "interrupted") {
		return "timeout", text, dt
	}
	return "error", text, dt
}

var fileCounter int
var fileMu sync.Mutex

func safeFileName(s string) string {
	re := regexp.MustCompile(`[^A-Za-z0-9_.#@-]+`)
	s = re.ReplaceAllString(s, "_")
	if len(s) > 150 {
		s = s[:150]
	}
	return s
}

// Solve discharges one obligation: z3-new first with a short budget, then a race
// of all three solvers with the full budget.
func Solve(o *Obligation, cfg SolverCfg) (SolveResult, string) {
	fileMu.Lock()
	fileCounter++
	n := fileCounter
	fileMu.Unlock()
	res := SolveResult{}
	if o.Expect == "unsat" && os.Getenv("GOVC_NOSLICE") == "" {
		// stage 0: a small query from the strict slice; only "unsat" is conclusive
		// (dropping assumptions cannot turn a provable goal into a false "unsat")
		f0 := filepath.Join(cfg.WorkDir, fmt.Sprintf("%04d_%s.s0.smt2", n, safeFileName(o.Name)))
		if err := os.WriteFile(f0, []byte(buildSMTLevel(o, false, 0)), 0o644); err == nil {
			t0 := 3 * time.Second
			if cfg.Timeout < t0 {
				t0 = cfg.Timeout
			}
			st, _, dt := runSolver(context.Background(), "z3-new", f0, t0, cfg.Seed)
			res.Tried = append(res.Tried, fmt.Sprintf("z3-new/strict:%s:%.2fs", st, dt))
			if st == "unsat" {
				res.Status, res.Solver, res.Seconds = st, "z3-new", dt
				return res, f0
			}
		}
	}
	smt := buildSMT(o, true)
	file := filepath.Join(cfg.WorkDir, fmt.Sprintf("%04d_%s.smt2", n, safeFileName(o.Name)))
	if err := os.WriteFile(file, []byte(smt), 0o644); err != nil {
		return SolveResult{Status: "error", Output: err.Error()}, file
	}
	quickT := 4 * time.Second
	if cfg.Timeout < quickT {
		quickT = cfg.Timeout
	}
	st, out, dt := runSolver(context.Background(), "z3-new", file, quickT, cfg.Seed)
	res.Tried = append(res.Tried, fmt.Sprintf("z3-new:%s:%.2fs", st, dt))
	if st == "sat" {
		st, out, file = confirmSat(o, cfg, n, st, out, file, &res)
	}
	if st == "unsat" || st == "sat" {
		res.Status, res.Solver, res.Seconds, res.Output = st, "z3-new", dt, out
		return res, file
	}
	if st == "error" {
		res.Output = out
	}
	res.Status = st
	res.Seconds = dt
	if res.Output == "" {
		res.Output = out
	}
	return res, file
}

// stripSpecPatterns removes the explicit triggers govc attached to quantifiers that
// come from specifications (tagged :qid govcspec), leaving trigger selection to the
// solver. Both variants are tried: neither dominates.
func stripSpecPatterns(smt string) string {
	const tag = " :qid govcspec)"
	for {
		k := strings.Index(smt, tag)
		if k < 0 {
			return smt
		}
		end := k + len(tag) - 1 // index of the closing paren of (! ...)
		// find the matching "(!" by walking back with paren balance
		depth := 0
		start := -1
		for i := end; i >= 0; i-- {
			if smt[i] == ')' {
				depth++
			} else if smt[i] == '(' {
				depth--
				if depth == 0 {
					start = i
					break
				}
			}
		}
		if start < 0 || !strings.HasPrefix(smt[start:], "(! ") {
			// cannot parse: drop just the tag to terminate
			smt = smt[:k] + ")" + smt[k+len(tag):]
			continue
		}
		bodyStart := start + 3
		bodyEnd := sexprEnd(smt, bodyStart)
		if bodyEnd < 0 || bodyEnd > end {
			smt = smt[:k] + ")" + smt[k+len(tag):]
			continue
		}
		smt = smt[:start] + smt[bodyStart:bodyEnd] + smt[end+1:]
	}
}

// confirmSat re-runs a satisfiable sliced query without slicing. Returns the status to
// report: "unsat" (the model relied on a dropped assumption; the goal is proved),
// "sat" (confirmed), or "unknown".
func confirmSat(o *Obligation, cfg SolverCfg, n int, st, out, file string, res *SolveResult) (string, string, string) {
	if o.Expect != "unsat" || os.Getenv("GOVC_NOSLICE") != "" {
		return st, out, file
	}
	full := filepath.Join(cfg.WorkDir, fmt.Sprintf("%04d_%s.full.smt2", n, safeFileName(o.Name)))
	if err := os.WriteFile(full, []byte(buildSMTLevel(o, true, 2)), 0o644); err != nil {
		return st, out, file
	}
	t := 20 * time.Second
	st2, out2, dt2 := runSolver(context.Background(), "z3-new", full, t, cfg.Seed)
	res.Tried = append(res.Tried, fmt.Sprintf("z3-new/unsliced:%s:%.2fs", st2, dt2))
	switch st2 {
	case "sat", "unsat":
		return st2, out2, full
	}
	// the complete query is too hard to decide quickly: keep the sliced model but say so
	return "sat", out + "\n; note: model of the sliced query; the unsliced query was " + st2 + "\n", file
}

// Portfolio runs many solver configurations on the strict and the inclusive slice of
// an obligation in parallel; the first conclusive answer wins ("sat" only counts on
// the inclusive slice, where no needed assumption can be missing... and even there it
// is only reported, never trusted without replay).
func Portfolio(o *Obligation, cfg SolverCfg) (SolveResult, string) {
	fileMu.Lock()
	fileCounter++
	n := fileCounter
	fileMu.Unlock()
	base := filepath.Join(cfg.WorkDir, fmt.Sprintf("%04d_%s.pf", n, safeFileName(o.Name)))
	full, strict := base+".smt2", base+".s0.smt2"
	fullNP, strictNP := base+".np.smt2", base+".s0.np.smt2"
	sFull, sStrict := buildSMTLevel(o, true, 1), buildSMTLevel(o, false, 0)
	os.WriteFile(full, []byte(sFull), 0o644)
	os.WriteFile(strict, []byte(sStrict), 0o644)
	os.WriteFile(fullNP, []byte(stripSpecPatterns(sFull)), 0o644)
	os.WriteFile(strictNP, []byte(stripSpecPatterns(sStrict)), 0o644)
	type job struct {
		cfg, file string
		strict    bool
		seed      int
	}
	var jobs []job
	for _, f := range []struct {
		file   string
		strict bool
	}{{full, false}, {strict, true}, {fullNP, false}, {strictNP, true}} {
		jobs = append(jobs,
			job{"z3-new", f.file, f.strict, cfg.Seed},
			job{"z3", f.file, f.strict, cfg.Seed},
			job{"cvc5+--enum-inst", f.file, f.strict, cfg.Seed},
		)
	}
	jobs = append(jobs,
		job{"z3-new", full, false, cfg.Seed + 7},
		job{"z3-new+smt.arith.solver=2", fullNP, false, cfg.Seed + 1},
		job{"z3", fullNP, false, cfg.Seed + 3},
		job{"cvc5", fullNP, false, cfg.Seed},
	)
	type rr struct {
		j   job
		st  string
		out string
		dt  float64
	}
	ctx, cancel := context.WithCancel(context.Background())
	defer cancel()
	ch := make(chan rr, len(jobs))
	for _, j := range jobs {
		go func(j job) {
			st, out, dt := runSolver(ctx, j.cfg, j.file, cfg.Timeout, j.seed)
			ch <- rr{j, st, out, dt}
		}(j)
	}
	res := SolveResult{Status: "timeout"}
	for range jobs {
		r := <-ch
		tag := r.j.cfg
		if r.j.strict {
			tag += "/strict"
		}
		res.Tried = append(res.Tried, fmt.Sprintf("%s:%s:%.1fs", tag, r.st, r.dt))
		if r.st == "sat" && !r.j.strict {
			// a model of a sliced query may violate a dropped assumption: confirm on
			// the complete query before reporting it
			st2, out2, f2 := confirmSat(o, cfg, n, r.st, r.out, r.j.file, &res)
			if st2 == "unsat" || st2 == "sat" {
				res.Status, res.Solver, res.Seconds, res.Output = st2, tag, r.dt, out2
				cancel()
				return res, f2
			}
			continue
		}
		if r.st == "unsat" {
			res.Status, res.Solver, res.Seconds, res.Output = r.st, tag, r.dt, r.out
			cancel()
			return res, r.j.file
		}
		if r.st == "unknown" && res.Status == "timeout" {
			res.Status = "unknown"
		}
	}
	res.Seconds = cfg.Timeout.Seconds()
	return res, full
}

// parseGetValue extracts ((term value) ...) pairs from solver output.
func parseGetValue(out string) map[string]string {
	res := map[string]string{}
	i := strings.Index(out, "((")
	if i < 0 {
		return res
	}
	s := out[i+1:]
	// s = "(term value) (term value) ...)"
	pos := 0
	for pos < len(s) {
		for pos < len(s) && (s[pos] == ' ' || s[pos] == '\n' || s[pos] == '\t') {
			pos++
		}
		if pos >= len(s) || s[pos] != '(' {
			break
		}
		// read one balanced pair
		end := matchParen(s, pos)
		if end < 0 {
			break
		}
		inner := s[pos+1 : end]
		// term is first sexpr
		tEnd := sexprEnd(inner, 0)
		if tEnd < 0 {
			break
		}
		term := strings.TrimSpace(inner[:tEnd])
		val := strings.TrimSpace(inner[tEnd:])
		res[term] = val
		pos = end + 1
	}
	return res
}

func matchParen(s string, i int) int {
	d := 0
	inBar := false
	for j := i; j < len(s); j++ {
		c := s[j]
		if c == '|' {
			inBar = !inBar
		}
		if inBar {
			continue
		}
		if c == '(' {
			d++
		} else if c == ')' {
			d--
			if d == 0 {
				return j
			}
		}
	}
	return -1
}

func sexprEnd(s string, i int) int {
	for i < len(s) && s[i] == ' ' {
		i++
	}
	if i >= len(s) {
		return -1
	}
	if s[i] == '(' {
		e := matchParen(s, i)
		if e < 0 {
			return -1
		}
		return e + 1
	}
	inBar := false
	j := i
	for ; j < len(s); j++ {
		if s[j] == '|' {
			inBar = !inBar
		}
		if !inBar && (s[j] == ' ' || s[j] == '\n') {
			break
		}
	}
	return j
}

// smtIntValue parses "5", "(- 5)".
func smtIntValue(v string) (int64, bool) {
	v = strings.TrimSpace(v)
	neg := false
	if strings.HasPrefix(v, "(-") && strings.HasSuffix(v, ")") {
		neg = true
		v = strings.TrimSpace(v[2 : len(v)-1])
	}
	var n int64
	if _, err := fmt.Sscanf(v, "%d", &n); err != nil {
		return 0, false
	}
	if fmt.Sprint(n) != v {
		return 0, false
	}
	if neg {
		n = -n
	}
	return n, true
}
