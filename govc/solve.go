package main

import (
	"bytes"
	"context"
	"fmt"
	"os"
	"os/exec"
	"path/filepath"
	"regexp"
	"strings"
	"sync"
	"time"
)

const preludeCore = `
(define-fun wrapu8 ((x Int)) Int (ite (> x 255) (- x 256) (ite (< x 0) (+ x 256) x)))
(define-fun wrapu16 ((x Int)) Int (ite (> x 65535) (- x 65536) (ite (< x 0) (+ x 65536) x)))
(define-fun wrapu32 ((x Int)) Int (ite (> x 4294967295) (- x 4294967296) (ite (< x 0) (+ x 4294967296) x)))
(define-fun wrapu64 ((x Int)) Int (ite (> x 18446744073709551615) (- x 18446744073709551616) (ite (< x 0) (+ x 18446744073709551616) x)))
(define-fun wraps8 ((x Int)) Int (ite (> x 127) (- x 256) (ite (< x (- 128)) (+ x 256) x)))
(define-fun wraps16 ((x Int)) Int (ite (> x 32767) (- x 65536) (ite (< x (- 32768)) (+ x 65536) x)))
(define-fun wraps32 ((x Int)) Int (ite (> x 2147483647) (- x 4294967296) (ite (< x (- 2147483648)) (+ x 4294967296) x)))
(define-fun wraps64 ((x Int)) Int (ite (> x 9223372036854775807) (- x 18446744073709551616) (ite (< x (- 9223372036854775808)) (+ x 18446744073709551616) x)))
(define-fun wrapms8 ((x Int)) Int (let ((m (mod x 256))) (ite (> m 127) (- m 256) m)))
(define-fun wrapms16 ((x Int)) Int (let ((m (mod x 65536))) (ite (> m 32767) (- m 65536) m)))
(define-fun wrapms32 ((x Int)) Int (let ((m (mod x 4294967296))) (ite (> m 2147483647) (- m 4294967296) m)))
(define-fun wrapms64 ((x Int)) Int (let ((m (mod x 18446744073709551616))) (ite (> m 9223372036854775807) (- m 18446744073709551616) m)))
(define-fun gdiv ((a Int) (b Int)) Int (ite (>= a 0) (ite (> b 0) (div a b) (- (div a (- b)))) (ite (> b 0) (- (div (- a) b)) (div (- a) (- b)))))
(define-fun gmod ((a Int) (b Int)) Int (- a (* b (gdiv a b))))
(declare-fun itag (Int) Int)
(declare-fun irow (Int Int Int) Int)
(declare-fun irow_tag (Int) Int)
(declare-fun irow_ref (Int) Int)
(declare-fun irow_idx (Int) Int)
(declare-fun pow2 (Int) Int)
(declare-fun ubvand (Int Int) Int)
(declare-fun ubvor (Int Int) Int)
(declare-fun ubvxor (Int Int) Int)
(declare-fun ubvandnot (Int Int) Int)
(declare-sort F 0)
(declare-const fzero F)
(declare-fun fadd (F F) F)
(declare-fun fsub (F F) F)
(declare-fun fmul (F F) F)
(declare-fun fdiv (F F) F)
(declare-fun fneg (F) F)
(declare-fun flt (F F) Bool)
(declare-fun fle (F F) Bool)
(declare-fun feq (F F) Bool)
(declare-fun i2f (Int) F)
(declare-fun f2i8 (F) Int)
(declare-fun f2i16 (F) Int)
(declare-fun f2i32 (F) Int)
(declare-fun f2i64 (F) Int)
(declare-fun fconv32 (F) F)
(declare-fun fconv64 (F) F)
(declare-fun slen (Int) Int)
(declare-fun sat (Int Int) Int)
(declare-fun ssub (Int Int Int) Int)
(declare-fun scat (Int Int) Int)
(declare-fun slt (Int Int) Bool)
(declare-const sempty Int)
(assert (= (slen sempty) 0))
(assert (= (itag 0) 0))
`

type SolveResult struct {
	Status  string // unsat | sat | unknown | timeout | error
	Solver  string
	Seconds float64
	Output  string
	Tried   []string
}

type SolverCfg struct {
	Timeout time.Duration
	WorkDir string
	Seed    int
}

var solverBins = map[string][]string{
	"z3-new": {"z3-new", "-smt2"},
	"z3":     {"/usr/bin/z3", "-smt2"},
	"cvc5":   {"cvc5", "--lang=smt2", "--incremental"},
}

func buildSMT(o *Obligation, withModel bool) string {
	e := o.enc
	var sb strings.Builder
	if withModel {
		sb.WriteString("(set-option :produce-models true)\n")
	}
	sb.WriteString("(set-logic ALL)\n")
	sb.WriteString(preludeCore)
	for _, d := range e.decls {
		sb.WriteString(d)
		sb.WriteByte('\n')
	}
	for _, a := range e.asserts[:o.Prefix] {
		sb.WriteString("(assert ")
		sb.WriteString(a)
		sb.WriteString(")\n")
	}
	sb.WriteString("(assert ")
	sb.WriteString(o.Goal)
	sb.WriteString(")\n(check-sat)\n")
	if withModel && len(o.Witness) > 0 {
		sb.WriteString("(get-value (")
		for _, w := range o.Witness {
			sb.WriteString(w.Term)
			sb.WriteByte(' ')
		}
		sb.WriteString("))\n")
	}
	return sb.String()
}

func runSolver(ctx context.Context, name, file string, timeout time.Duration, seed int) (string, string, float64) {
	args := append([]string{}, solverBins[name][1:]...)
	switch name {
	case "z3", "z3-new":
		args = append(args, fmt.Sprintf("-T:%d", int(timeout.Seconds())+1), fmt.Sprintf("smt.random_seed=%d", seed), fmt.Sprintf("sat.random_seed=%d", seed))
	case "cvc5":
		args = append(args, fmt.Sprintf("--tlimit=%d", timeout.Milliseconds()), fmt.Sprintf("--seed=%d", seed))
	}
	args = append(args, file)
	cctx, cancel := context.WithTimeout(ctx, timeout+2*time.Second)
	defer cancel()
	cmd := exec.CommandContext(cctx, solverBins[name][0], args...)
	var out bytes.Buffer
	cmd.Stdout = &out
	cmd.Stderr = &out
	t0 := time.Now()
	_ = cmd.Run()
	dt := time.Since(t0).Seconds()
	text := out.String()
	first := strings.TrimSpace(text)
	if i := strings.Index(first, "\n"); i >= 0 {
		first = strings.TrimSpace(first[:i])
	}
	switch first {
	case "unsat", "sat", "unknown":
		return first, text, dt
	}
	if cctx.Err() != nil || strings.Contains(text, "timeout") || strings.Contains(text, "interrupted") {
		return "timeout", text, dt
	}
	return "error", text, dt
}

var fileCounter int
var fileMu sync.Mutex

func safeFileName(s string) string {
	re := regexp.MustCompile(`[^A-Za-z0-9_.#@-]+`)
	s = re.ReplaceAllString(s, "_")
	if len(s) > 150 {
		s = s[:150]
	}
	return s
}

// Solve discharges one obligation: z3-new first with a short budget, then a race
// of all three solvers with the full budget.
func Solve(o *Obligation, cfg SolverCfg) (SolveResult, string) {
	smt := buildSMT(o, true)
	fileMu.Lock()
	fileCounter++
	n := fileCounter
	fileMu.Unlock()
	file := filepath.Join(cfg.WorkDir, fmt.Sprintf("%04d_%s.smt2", n, safeFileName(o.Name)))
	if err := os.WriteFile(file, []byte(smt), 0o644); err != nil {
		return SolveResult{Status: "error", Output: err.Error()}, file
	}
	res := SolveResult{}
	quickT := 4 * time.Second
	if cfg.Timeout < quickT {
		quickT = cfg.Timeout
	}
	st, out, dt := runSolver(context.Background(), "z3-new", file, quickT, cfg.Seed)
	res.Tried = append(res.Tried, fmt.Sprintf("z3-new:%s:%.2fs", st, dt))
	if st == "unsat" || st == "sat" {
		res.Status, res.Solver, res.Seconds, res.Output = st, "z3-new", dt, out
		return res, file
	}
	if st == "error" {
		res.Output = out
	}
	// race
	type rr struct {
		name, st, out string
		dt            float64
	}
	ctx, cancel := context.WithCancel(context.Background())
	defer cancel()
	ch := make(chan rr, 3)
	names := []string{"cvc5", "z3", "z3-new"}
	for _, nm := range names {
		go func(nm string) {
			s, o2, d := runSolver(ctx, nm, file, cfg.Timeout, cfg.Seed)
			ch <- rr{nm, s, o2, d}
		}(nm)
	}
	best := rr{st: "unknown"}
	for range names {
		r := <-ch
		res.Tried = append(res.Tried, fmt.Sprintf("%s:%s:%.2fs", r.name, r.st, r.dt))
		if r.st == "unsat" || r.st == "sat" {
			res.Status, res.Solver, res.Seconds, res.Output = r.st, r.name, r.dt+dt, r.out
			cancel()
			return res, file
		}
		if r.st == "error" && res.Output == "" {
			res.Output = r.name + ": " + r.out
		}
		if best.st == "unknown" && r.st == "timeout" {
			best = r
		}
		if r.st == "unknown" && best.st != "timeout" {
			best = r
		}
	}
	res.Status = best.st
	if res.Status == "" {
		res.Status = "unknown"
	}
	res.Seconds = dt + cfg.Timeout.Seconds()
	if res.Output == "" {
		res.Output = best.out
	}
	return res, file
}

// parseGetValue extracts ((term value) ...) pairs from solver output.
func parseGetValue(out string) map[string]string {
	res := map[string]string{}
	i := strings.Index(out, "((")
	if i < 0 {
		return res
	}
	s := out[i+1:]
	// s = "(term value) (term value) ...)"
	pos := 0
	for pos < len(s) {
		for pos < len(s) && (s[pos] == ' ' || s[pos] == '\n' || s[pos] == '\t') {
			pos++
		}
		if pos >= len(s) || s[pos] != '(' {
			break
		}
		// read one balanced pair
		end := matchParen(s, pos)
		if end < 0 {
			break
		}
		inner := s[pos+1 : end]
		// term is first sexpr
		tEnd := sexprEnd(inner, 0)
		if tEnd < 0 {
			break
		}
		term := strings.TrimSpace(inner[:tEnd])
		val := strings.TrimSpace(inner[tEnd:])
		res[term] = val
		pos = end + 1
	}
	return res
}

func matchParen(s string, i int) int {
	d := 0
	inBar := false
	for j := i; j < len(s); j++ {
		c := s[j]
		if c == '|' {
			inBar = !inBar
		}
		if inBar {
			continue
		}
		if c == '(' {
			d++
		} else if c == ')' {
			d--
			if d == 0 {
				return j
			}
		}
	}
	return -1
}

func sexprEnd(s string, i int) int {
	for i < len(s) && s[i] == ' ' {
		i++
	}
	if i >= len(s) {
		return -1
	}
	if s[i] == '(' {
		e := matchParen(s, i)
		if e < 0 {
			return -1
		}
		return e + 1
	}
	inBar := false
	j := i
	for ; j < len(s); j++ {
		if s[j] == '|' {
			inBar = !inBar
		}
		if !inBar && (s[j] == ' ' || s[j] == '\n') {
			break
		}
	}
	return j
}

// smtIntValue parses "5", "(- 5)".
func smtIntValue(v string) (int64, bool) {
	v = strings.TrimSpace(v)
	neg := false
	if strings.HasPrefix(v, "(-") && strings.HasSuffix(v, ")") {
		neg = true
		v = strings.TrimSpace(v[2 : len(v)-1])
	}
	var n int64
	if _, err := fmt.Sscanf(v, "%d", &n); err != nil {
		return 0, false
	}
	if fmt.Sprint(n) != v {
		return 0, false
	}
	if neg {
		n = -n
	}
	return n, true
}
