package blob

// Bounded stand-ins for property C08 (labelled bounded, never counted as proved).
// Injected by /verif/bounded/C08/run.sh through go test -overlay.

import (
	"bytes"
	"crypto/sha256"
	"errors"
	"fmt"
	"io"
	"os"
	"runtime"
	"testing"
)

// c08Source delivers data in pieces of `piece` bytes and then misbehaves.
type c08Source struct {
	data  []byte
	piece int
	after int    // bytes delivered before the event
	event string // "", "error", "crash"
	sent  int
	gate  func(sent int) // called before every Read (schedules)
}

func (s *c08Source) Read(p []byte) (int, error) {
	if s.gate != nil {
		s.gate(s.sent)
	}
	if s.event != "" && s.sent >= s.after {
		if s.event == "crash" {
			runtime.Goexit() // the writer dies here: deferred Close runs, Truncate does not
		}
		return 0, errors.New("source failed")
	}
	if s.sent >= len(s.data) {
		return 0, io.EOF
	}
	n := min(s.piece, len(p), len(s.data)-s.sent)
	if s.event != "" {
		n = min(n, s.after-s.sent)
	}
	copy(p, s.data[s.sent:s.sent+n])
	s.sent += n
	return n, nil
}

func c08Content(n int) []byte {
	b := make([]byte, n)
	for i := range b {
		b[i] = byte('a' + i)
	}
	return b
}

// the property-level oracle on the state of one blob
func c08Check(t *testing.T, c *DiskCache, d Digest, size int64, what string) {
	t.Helper()
	if msg := c08Oracle(c, d, size); msg != "" {
		t.Fatalf("REPRODUCED: %s: %s", what, msg)
	}
}

func c08Oracle(c *DiskCache, d Digest, size int64) string {
	e, err := c.Get(d)
	if err != nil {
		return "" // not reported as present
	}
	if e.Size != size {
		return "" // not reported with the size it is stored under: callers treat it as incomplete
	}
	got, _ := os.ReadFile(c.GetFile(d))
	if sha256.Sum256(got) != d.sum {
		return fmt.Sprintf("Get reports the blob with its full size %d but the content %q does not hash to its digest", size, got)
	}
	return ""
}

func c08Run(f func()) {
	done := make(chan struct{})
	go func() { defer close(done); f() }()
	<-done
}

// TestC08BoundedFaults: one blob, every pre-existing file state x every source behaviour,
// then a correct Put. Sequential.
func TestC08BoundedFaults(t *testing.T) {
	runs := 0
	for size := 1; size <= 5; size++ {
		good := c08Content(size)
		d := DigestFromBytes(good)
		// pre-existing states of blobs/sha256-d: absent, garbage of every length != size up to size+2
		for pre := -1; pre <= size+2; pre++ {
			if pre == size {
				continue // a file of the right size is the completeness marker: only reachable with the right content
			}
			for piece := 1; piece <= 3; piece++ {
				type src struct {
					name  string
					data  []byte
					event string
					after int
				}
				var srcs []src
				for k := 0; k <= size; k++ {
					srcs = append(srcs, src{fmt.Sprintf("error@%d", k), good, "error", k})
					srcs = append(srcs, src{fmt.Sprintf("crash@%d", k), good, "crash", k})
				}
				for j := 0; j < size; j++ {
					bad := append([]byte{}, good...)
					bad[j] ^= 0x20
					srcs = append(srcs, src{fmt.Sprintf("corrupt@%d", j), bad, "", 0})
					for k := j + 1; k <= size; k++ {
						srcs = append(srcs, src{fmt.Sprintf("corrupt@%d+crash@%d", j, k), bad, "crash", k})
					}
				}
				srcs = append(srcs, src{"short", good[:size-1], "", 0})
				srcs = append(srcs, src{"long", append(append([]byte{}, good...), 'x'), "", 0})
				srcs = append(srcs, src{"long-corrupt", append(append([]byte{}, good[:size-1]...), 'X', 'x'), "", 0})
				for _, s := range srcs {
					runs++
					c, err := Open(t.TempDir())
					if err != nil {
						t.Fatal(err)
					}
					if pre >= 0 {
						os.WriteFile(c.GetFile(d), bytes.Repeat([]byte("#"), pre), 0o666)
					}
					what := fmt.Sprintf("size=%d pre-existing=%d piece=%d source=%s", size, pre, piece, s.name)
					var perr error
					c08Run(func() {
						perr = errors.New("writer died")
						perr = c.Put(d, &c08Source{data: s.data, piece: piece, event: s.event, after: s.after}, int64(size))
					})
					if perr == nil {
						t.Fatalf("REPRODUCED: %s: Put succeeded", what)
					}
					c08Check(t, c, d, int64(size), what)
					// "A successful store makes the blob retrievable"
					if err := c.Put(d, &c08Source{data: good, piece: piece}, int64(size)); err != nil {
						t.Fatalf("REPRODUCED: %s: a correct Put afterwards fails: %v", what, err)
					}
					e, err := c.Get(d)
					if err != nil || e.Size != int64(size) {
						t.Fatalf("REPRODUCED: %s: after a successful Put, Get returns (%d, %v)", what, e.Size, err)
					}
					c08Check(t, c, d, int64(size), what+" then correct Put")
				}
			}
		}
	}
	t.Logf("%d fault scenarios", runs)
}

// TestC08BoundedTwoWriters: two writers of the same blob, one with a corrupted source, in
// every schedule of the form: B opens the file; A runs for a steps (or completely); B
// writes b bytes; observe; B finishes or dies; observe. Reads gate the schedule.
func TestC08BoundedTwoWriters(t *testing.T) {
	const size = 4
	good := c08Content(size)
	d := DigestFromBytes(good)
	first := map[string]string{} // kind of violation -> first schedule showing it
	count := map[string]int{}
	note := func(kind, what, msg string) {
		if msg == "" {
			return
		}
		count[kind]++
		if _, ok := first[kind]; !ok {
			first[kind] = what + ": " + msg
		}
	}
	schedules := 0
	for j := 0; j < size; j++ { // corrupted position of B's source
		for b := 1; b <= size; b++ { // bytes B delivers before the observation point
			for _, bEnd := range []string{"finish", "crash"} {
				what := fmt.Sprintf("B corrupt@%d, A completes while B is blocked before its first byte, B writes %d bytes, then B %s", j, b, bEnd)
				c, err := Open(t.TempDir())
				if err != nil {
					t.Fatal(err)
				}
				bad := append([]byte{}, good...)
				bad[j] ^= 0x20
				atFirst, goOn1 := make(chan struct{}), make(chan struct{})
				atObs, goOn2 := make(chan struct{}), make(chan struct{})
				src := &c08Source{data: bad, piece: 1}
				src.gate = func(sent int) {
					if sent == 0 {
						close(atFirst)
						<-goOn1
					}
					if sent == b {
						close(atObs)
						<-goOn2
						if bEnd == "crash" {
							runtime.Goexit()
						}
					}
				}
				bDone := make(chan struct{})
				go func() { defer close(bDone); c.Put(d, src, size) }()
				<-atFirst // B has done Stat + OpenFile and waits for its first byte
				if err := c.Put(d, bytes.NewReader(good), size); err != nil {
					t.Fatalf("%s: A's Put failed: %v", what, err)
				}
				c08Check(t, c, d, size, what+" [after A]")
				close(goOn1)
				if b < size {
					<-atObs
				} else {
					// B is asked for more only after its last byte went through Write
					select {
					case <-atObs:
					case <-bDone:
					}
				}
				schedules++
				note("transient: wrong content at full size while B is writing", what, c08Oracle(c, d, size))
				close(goOn2)
				<-bDone
				note("permanent: wrong content at full size after B "+bEnd, what, c08Oracle(c, d, size))
				if _, err := c.Get(d); err != nil {
					note("A's successful store is gone after B "+bEnd, what, "Get: "+err.Error())
				}
			}
		}
	}
	for kind, msg := range first {
		t.Errorf("REPRODUCED (%d of %d schedules): %s\n    first: %s", count[kind], schedules, kind, msg)
	}
}
