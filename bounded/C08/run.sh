#!/bin/bash
# Bounded stand-ins for C08 (labelled bounded, never counted as proved).
# usage: bounded/C08/run.sh faults|writers     (cwd: /verif; honours GOVC_REPO)
set -u
here="$(cd "$(dirname "$0")" && pwd)"
repo="${GOVC_REPO:-/repo}"
export GOFLAGS=-mod=mod GOPROXY=off
ov=$(mktemp /tmp/c08-overlay.XXXXXX.json)
trap 'rm -f "$ov"' EXIT
printf '{"Replace":{"%s/server/internal/cache/blob/zz_c08_bounded_test.go":"%s/blob_bounded_test.go"}}' "$repo" "$here" > "$ov"
case "${1:-faults}" in
faults)  run='TestC08BoundedFaults$' ;;
writers) run='TestC08BoundedTwoWriters$' ;;
*) echo "unknown bounded check $1"; exit 2 ;;
esac
cd "$repo" && timeout 600 go test -overlay "$ov" -vet=off -timeout 540s -run "$run" -count=1 ./server/internal/cache/blob
