package sample

import (
	"math"
	"testing"
)

// Bounded stand-ins for C18 (not proofs).
//
// 1. the two order axioms used by the contracts (`<` on float32 irreflexive and
//    transitive) and the two floating-point facts the undecided index obligations
//    depend on, over a grid of special values;
// 2. the real Sample on a grid of logit vectors (ties, infinities, huge magnitudes,
//    length 1) x sampler parameters: no panic, id inside the vocabulary, temperature 0
//    returns a highest logit, the returned logit is not -Inf when some logit is
//    finite, a fixed seed reproduces the sequence.

func c18grid() []float32 {
	nan := float32(math.NaN())
	inf := float32(math.Inf(1))
	below1 := math.Nextafter32(1, 0)
	above1 := math.Nextafter32(1, 2)
	vs := []float32{nan, inf, -inf, 0, float32(math.Copysign(0, -1)),
		math.SmallestNonzeroFloat32, -math.SmallestNonzeroFloat32, math.MaxFloat32, -math.MaxFloat32,
		1, -1, below1, above1, -below1, 0.5, 0.25, 0.1, 0.3, 1e-7, 1e-20, 1e-38, 3, 7, 100, 1e10, 1e30,
		-0.5, -3, -100, -1e30, 0.99999, 0.33333334, 0.6666667, 2, 16777216, 16777217, 1.1754944e-38, 5e-39, 0.9, 0.95, 1e-45}
	return vs
}

func TestC18BoundedOrderAxioms(t *testing.T) {
	vs := c18grid()
	for _, a := range vs {
		if a < a {
			t.Fatalf("REPRODUCED: %v < %v", a, a)
		}
		for _, b := range vs {
			for _, c := range vs {
				if a < b && b < c && !(a < c) {
					t.Fatalf("REPRODUCED: < not transitive on %v %v %v", a, b, c)
				}
			}
		}
	}
	for _, x := range vs {
		if x < 0 {
			continue
		}
		for _, p := range vs {
			if p >= 0 && p <= 1 {
				if x < x*p {
					t.Fatalf("REPRODUCED: x < x*p for x=%v p=%v", x, p)
				}
			}
			if p >= 0 && p < 1 {
				if x < p*x {
					t.Fatalf("REPRODUCED: last < r*last for last=%v r=%v", x, p)
				}
			}
		}
	}
}

func TestC18BoundedSampleGrid(t *testing.T) {
	inf := float32(math.Inf(1))
	vectors := [][]float32{
		{0}, {-inf}, {inf}, {math.MaxFloat32},
		{1, 1}, {1, 2}, {2, 1}, {-inf, 0}, {0, -inf}, {-inf, -inf},
		{1, 1, 1, 1}, {3, 1, 2, 3}, {-1e30, 1e30, 0}, {math.MaxFloat32, math.MaxFloat32, -math.MaxFloat32},
		{0.1, 0.2, 0.3, 0.4, 0.5, 0.6, 0.7, 0.8}, {-inf, 5, -inf, 5, -inf}, {1e-45, 0, -1e-45},
		{100, -100, 50, -50, 0, 100}, {inf, 1, 2}, {-3, -2, -1},
		{3e38, 0}, {0, 3e38, 1e38}, {-3e38, 3e38}, {3e38, 3e38, -inf}, {1e32, 1e31, 0}, {inf, inf, 0}, {-3e38, -inf},
	}
	temps := []float32{0, 1e-9, 0.5, 1, 2, 100}
	topKs := []int{-1, 0, 1, 2, 3, 1000}
	topPs := []float32{0, 0.1, 0.5, 0.9, 1}
	minPs := []float32{0, 0.05, 0.5, 1}
	seeds := []int{-1, 0, 1, 42}
	n := 0
	for _, logits := range vectors {
		someFinite := false
		anyNaN := false
		maxLogit := float32(math.Inf(-1))
		for _, l := range logits {
			if l != l {
				anyNaN = true
			}
			if !math.IsInf(float64(l), 0) && l == l {
				someFinite = true
			}
			if l > maxLogit {
				maxLogit = l
			}
		}
		for _, temp := range temps {
			for _, k := range topKs {
				for _, p := range topPs {
					for _, mp := range minPs {
						for _, seed := range seeds {
							n++
							run := func() ([]int32, []error) {
								s := NewSampler(temp, k, p, mp, seed, nil)
								var ids []int32
								var errs []error
								for range 4 {
									in := append([]float32(nil), logits...)
									id, err := s.Sample(in)
									ids = append(ids, id)
									errs = append(errs, err)
								}
								return ids, errs
							}
							ids, errs := run()
							for i, id := range ids {
								if errs[i] != nil {
									if id != -1 {
										t.Fatalf("REPRODUCED: error with id %d", id)
									}
									// "always returns a token id ... whenever some logit is finite": an
									// error is admissible only when no logit is finite (or one is NaN)
									if someFinite && !anyNaN {
										t.Fatalf("REPRODUCED: no token although some logit is finite: %v (logits %v temp %v k %d p %v minp %v seed %d)", errs[i], logits, temp, k, p, mp, seed)
									}
									continue
								}
								if id < 0 || int(id) >= len(logits) {
									t.Fatalf("REPRODUCED: id %d outside vocabulary of %d (logits %v temp %v k %d p %v minp %v seed %d)", id, len(logits), logits, temp, k, p, mp, seed)
								}
								if someFinite && math.IsInf(float64(logits[id]), -1) {
									t.Fatalf("REPRODUCED: sampled a -Inf logit: id %d (logits %v temp %v k %d p %v minp %v seed %d)", id, logits, temp, k, p, mp, seed)
								}
								if temp == 0 && logits[id] != maxLogit {
									t.Fatalf("REPRODUCED: temperature 0 returned logit %v, max is %v (logits %v)", logits[id], maxLogit, logits)
								}
							}
							if seed != -1 {
								ids2, _ := run()
								for i := range ids {
									if ids[i] != ids2[i] {
										t.Fatalf("REPRODUCED: seed %d not reproducible: %v vs %v (logits %v temp %v k %d p %v minp %v)", seed, ids, ids2, logits, temp, k, p, mp)
									}
								}
							}
						}
					}
				}
			}
		}
	}
	t.Logf("%d parameter combinations", n)
}
