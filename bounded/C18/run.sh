#!/bin/bash
# Bounded stand-in for C18 (labelled bounded, never counted as proved).
# usage: bounded/C18/run.sh     (cwd: /verif; honours GOVC_REPO)
set -u
here="$(cd "$(dirname "$0")" && pwd)"
repo="${GOVC_REPO:-/repo}"
export GOFLAGS=-mod=mod GOPROXY=off
ov=$(mktemp /tmp/c18-overlay.XXXXXX.json)
trap 'rm -f "$ov"' EXIT
printf '{"Replace":{"%s/sample/zz_c18_bounded_test.go":"%s/sampler_bounded_test.go"}}' "$repo" "$here" > "$ov"
cd "$repo" && timeout 280 go test -overlay "$ov" -vet=off -timeout 240s -run 'TestC18Bounded' -count=1 ./sample
