#!/bin/bash
# Bounded stand-ins for C13 (labelled bounded, never counted as proved).
# usage: bounded/C13/run.sh names|digests     (cwd: /verif; honours GOVC_REPO)
set -u
here="$(cd "$(dirname "$0")" && pwd)"
repo="${GOVC_REPO:-/repo}"
export GOFLAGS=-mod=mod GOPROXY=off
ov=$(mktemp /tmp/c13-overlay.XXXXXX.json)
trap 'rm -f "$ov"' EXIT
case "${1:-names}" in
names)
  printf '{"Replace":{"%s/server/internal/internal/names/zz_c13_bounded_test.go":"%s/names_bounded_test.go"}}' "$repo" "$here" > "$ov"
  cd "$repo" && timeout 200 go test -overlay "$ov" -vet=off -timeout 150s -run 'TestC13BoundedNames$' -count=1 ./server/internal/internal/names ;;
digests)
  printf '{"Replace":{"%s/server/zz_c13_bounded_test.go":"%s/digest_bounded_test.go"}}' "$repo" "$here" > "$ov"
  cd "$repo" && timeout 280 go test -overlay "$ov" -vet=off -timeout 240s -run 'TestC13BoundedDigests$' -count=1 ./server ;;
*) echo "unknown bounded check $1"; exit 2 ;;
esac
