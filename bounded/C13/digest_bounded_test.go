package server

// Bounded stand-in (C13, digests): the deductive proof trusts a contract for
// regexp.MatchString; this test runs the real GetBlobsPath / blob.ParseDigest.
// Bound: a valid 71-byte digest with every single position replaced by each of 14 probe
// bytes, both separators, lengths 0 and 69..73, and prefix/suffix injections of each probe.

import (
	"path/filepath"
	"strings"
	"testing"

	"github.com/ollama/ollama/server/internal/cache/blob"
)

var c13Probes = []byte{'a', 'F', 'g', '0', '_', '-', '.', ':', '/', '@', '\\', 0, '\n', 0xc3}

func c13DigestOracle(s string) bool {
	if len(s) != 71 || s[:6] != "sha256" || (s[6] != ':' && s[6] != '-') {
		return false
	}
	for _, c := range []byte(s[7:]) {
		if !(c >= '0' && c <= '9' || c >= 'a' && c <= 'f' || c >= 'A' && c <= 'F') {
			return false
		}
	}
	return true
}

func TestC13BoundedDigests(t *testing.T) {
	models := t.TempDir()
	t.Setenv("OLLAMA_MODELS", models)
	hex64 := strings.Repeat("0123456789abcdefABCDEF", 3)[:64]
	var cands []string
	for _, sep := range []string{":", "-"} {
		base := "sha256" + sep + hex64
		cands = append(cands, base)
		for i := 0; i < len(base); i++ {
			for _, c := range c13Probes {
				cands = append(cands, base[:i]+string([]byte{c})+base[i+1:]) // replace
				cands = append(cands, base[:i]+string([]byte{c})+base[i:])   // insert
			}
			cands = append(cands, base[:i]+base[i+1:]) // delete
		}
		for _, c := range c13Probes {
			cands = append(cands, base+string([]byte{c}), string([]byte{c})+base)
		}
		cands = append(cands, base+"/..", "../"+base, base+"\n", "\n"+base, base[:69], base[:70], base+"0", base+"00")
	}
	cands = append(cands, "", "sha256", "sha256:", "sha256-", "..", "../../etc/passwd")
	n := 0
	for _, d := range cands {
		n++
		want := c13DigestOracle(d)
		p, err := GetBlobsPath(d)
		if d == "" {
			if err != nil || p != filepath.Join(models, "blobs") {
				t.Fatalf("REPRODUCED: GetBlobsPath(\"\") = %q, %v", p, err)
			}
		} else {
			if (err == nil) != want {
				t.Fatalf("REPRODUCED: GetBlobsPath(%q) err=%v, oracle accepts=%v", d, err, want)
			}
			if err == nil {
				file := "sha256-" + d[7:]
				if p != filepath.Join(models, "blobs", file) || filepath.Dir(p) != filepath.Join(models, "blobs") || strings.ContainsAny(file, "/\\\x00:") {
					t.Fatalf("REPRODUCED: GetBlobsPath(%q) = %q is not blobs/%s", d, p, file)
				}
			}
		}
		if d != "" {
			dg, err := blob.ParseDigest(d)
			if (err == nil) != want {
				t.Fatalf("REPRODUCED: blob.ParseDigest(%q) err=%v, oracle accepts=%v", d, err, want)
			}
			if err == nil && !strings.EqualFold(dg.String(), "sha256:"+d[7:]) {
				t.Fatalf("REPRODUCED: blob.ParseDigest(%q).String() = %q", d, dg.String())
			}
		}
	}
	t.Logf("C13 bounded digests: %d candidates", n)
}
