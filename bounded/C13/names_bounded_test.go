package names

// Bounded stand-in for the parts of C13 that are not proved deductively (round trip and
// agreement of the two name parsers). Injected into package names with `go test -overlay`
// by /verif/bounded/C13/run.sh. NOT a proof: exhaustive only up to the stated bound.
//
// Bound: every string of length 0..7 over the 10-symbol alphabet
//   a B _ - . : / @ \ NUL
// (lower/upper alphanumeric, underscore, each separator the parsers split at, the path
// separators, NUL), plus part lengths around the limits (79..81, 349..351).

import (
	"path/filepath"
	"strings"
	"testing"

	"github.com/ollama/ollama/types/model"
)

var c13Alphabet = []byte{'a', 'B', '_', '-', '.', ':', '/', '@', '\\', 0}

const c13MaxLen = 7

func c13Enumerate(f func(s string)) int {
	n := 0
	buf := make([]byte, 0, c13MaxLen)
	var rec func()
	rec = func() {
		f(string(buf))
		n++
		if len(buf) == c13MaxLen {
			return
		}
		for _, c := range c13Alphabet {
			buf = append(buf, c)
			rec()
			buf = buf[:len(buf)-1]
		}
	}
	rec()
	return n
}

// oracle written from the property statement: a usable path component
func c13ComponentOK(p string) bool {
	return p != "" && p != "." && p != ".." && !strings.ContainsAny(p, "/\\\x00") && p[0] != '.'
}

func c13CheckConfined(t *testing.T, src string, n model.Name) {
	p := n.Filepath()
	comps := strings.Split(p, string(filepath.Separator))
	if len(comps) != 4 || filepath.Clean(p) != p || !filepath.IsLocal(p) {
		t.Fatalf("REPRODUCED: %q accepted, Filepath %q is not a clean local 4-component path", src, p)
	}
	want := []string{n.Host, n.Namespace, n.Model, n.Tag}
	for i, c := range comps {
		if !c13ComponentOK(c) || c != want[i] {
			t.Fatalf("REPRODUCED: %q accepted, component %d of %q is %q (part %q)", src, i, p, c, want[i])
		}
	}
}

func c13Same(a model.Name, b Name) bool {
	return a.Host == b.h && a.Namespace == b.n && a.Model == b.m && a.Tag == b.t
}

func TestC13BoundedNames(t *testing.T) {
	mask := Parse("registry.ollama.ai/library/_:latest")
	count := c13Enumerate(func(s string) {
		// --- first parser, bare and with defaults
		for _, n := range []model.Name{model.ParseNameBare(s), model.ParseName(s)} {
			if !n.IsValid() {
				continue
			}
			c13CheckConfined(t, s, n)
			// print/parse round trip
			if back := model.ParseNameBare(n.String()); back != n {
				t.Fatalf("REPRODUCED: round trip types/model: %q -> %#v -> %q -> %#v", s, n, n.String(), back)
			}
			// the other parser reads the printed name with the same parts
			o := Parse(n.String())
			if !o.IsFullyQualified() || !c13Same(n, o) {
				t.Fatalf("REPRODUCED: names.Parse(%q) = %#v, types/model printed it from %#v", n.String(), o, n)
			}
			// letter case: the case-folded spelling parses to an EqualFold name
			for _, v := range []string{strings.ToUpper(s), strings.ToLower(s)} {
				u := model.ParseName(v)
				if model.ParseName(s) == n && u.IsValid() && !u.EqualFold(n) {
					t.Fatalf("REPRODUCED: %q and %q are not EqualFold", s, v)
				}
			}
			// filepath form parses back
			if fp := model.ParseNameFromFilepath(n.Filepath()); fp != n {
				t.Fatalf("REPRODUCED: ParseNameFromFilepath(%q) = %#v, want %#v", n.Filepath(), fp, n)
			}
		}
		// --- second parser, bare and merged with the default mask
		for _, o := range []Name{Parse(s), Merge(Parse(s), mask)} {
			if !o.IsFullyQualified() {
				continue
			}
			if back := Parse(o.String()); back.h != o.h || back.n != o.n || back.m != o.m || back.t != o.t {
				t.Fatalf("REPRODUCED: round trip names: %q -> %#v -> %q -> %#v", s, o, o.String(), back)
			}
			n := model.ParseNameBare(o.String())
			if !n.IsValid() || !c13Same(n, o) {
				t.Fatalf("REPRODUCED: model.ParseNameBare(%q) = %#v, names printed it from %#v", o.String(), n, o)
			}
			c13CheckConfined(t, s, n)
		}
		// --- a relative path read back as a name
		if n := model.ParseNameFromFilepath(s); n != (model.Name{}) {
			if !n.IsValid() {
				t.Fatalf("REPRODUCED: ParseNameFromFilepath(%q) = %#v is not valid", s, n)
			}
			c13CheckConfined(t, s, n)
		}
		// --- the two validators agree on every single part
		for kind := 0; kind < 4; kind++ {
			parts := [4]string{"a", "a", "a", "a"}
			parts[kind] = s
			a := model.Name{Host: parts[0], Namespace: parts[1], Model: parts[2], Tag: parts[3]}.IsValid()
			b := Name{h: parts[0], n: parts[1], m: parts[2], t: parts[3]}.IsFullyQualified()
			if a != b {
				t.Fatalf("REPRODUCED: validators disagree on part %d = %q: types/model %v, names %v", kind, s, a, b)
			}
			if a && !c13ComponentOK(s) {
				t.Fatalf("REPRODUCED: part %d = %q accepted but not a safe path component", kind, s)
			}
		}
	})
	t.Logf("C13 bounded: %d strings", count)

	// part lengths around the limits
	for kind, limit := range []int{350, 80, 80, 80} {
		for _, l := range []int{limit - 1, limit, limit + 1} {
			parts := [4]string{"a", "a", "a", "a"}
			parts[kind] = strings.Repeat("a", l)
			a := model.Name{Host: parts[0], Namespace: parts[1], Model: parts[2], Tag: parts[3]}
			b := Name{h: parts[0], n: parts[1], m: parts[2], t: parts[3]}
			if a.IsValid() != (l <= limit) || b.IsFullyQualified() != (l <= limit) {
				t.Fatalf("REPRODUCED: part %d of length %d: types/model %v, names %v", kind, l, a.IsValid(), b.IsFullyQualified())
			}
			if a.IsValid() {
				if back := model.ParseNameBare(a.String()); back != a {
					t.Fatalf("REPRODUCED: round trip at length %d of part %d", l, kind)
				}
				if o := Parse(a.String()); !c13Same(a, o) {
					t.Fatalf("REPRODUCED: names.Parse differs at length %d of part %d", l, kind)
				}
			}
		}
	}
}
