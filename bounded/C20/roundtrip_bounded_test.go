package model

import (
	"slices"
	"strings"
	"testing"
	"unicode/utf8"
)

// Bounded stand-in for C20 (not a proof): the real BytePairEncoding.Encode / Decode with
// the llama 3.2 test vocabulary (process_text_test.go: llama) on
//   - every one-character text U+0001..U+FFFF (surrogates excluded) and a stride over the
//     supplementary planes,
//   - every two-character text over a 40-symbol alphabet (letters, digits, every kind of
//     white space the pre-tokenizer distinguishes, punctuation incl. '~', combining mark,
//     CJK, emoji), alone and between letters,
//   - every literal special token inside text.
// Oracle: Decode(Encode(s)) == s, every id inside the vocabulary, a special-token
// literal encodes to that token's id.
func TestC20BoundedRoundTrip(t *testing.T) {
	tok := llama(t)
	n, skipped := 0, 0
	// known finding (C20, SpecialVocabulary$1#assert.1@append.1): entries 105/106 are
	// registered as special tokens whatever their type; texts containing such a
	// non-CONTROL "special" string are outside this stand-in
	var knownBad []string
	for _, sp := range tok.vocab.SpecialVocabulary() {
		if i := slices.Index(tok.vocab.Values, sp); i < 0 || tok.vocab.Types[i] != TOKEN_TYPE_CONTROL {
			knownBad = append(knownBad, sp)
		}
	}
	check := func(s string) {
		if !utf8.ValidString(s) || strings.ContainsRune(s, 0) {
			return
		}
		for _, kb := range knownBad {
			if strings.Contains(s, kb) {
				skipped++
				return
			}
		}
		n++
		ids, err := tok.Encode(s, false)
		if err != nil {
			t.Fatalf("Encode(%q): %v", s, err)
		}
		for _, id := range ids {
			if id < 0 || int(id) >= len(tok.vocab.Values) {
				t.Fatalf("REPRODUCED: Encode(%q) produced id %d outside the vocabulary", s, id)
			}
		}
		got, err := tok.Decode(ids)
		if err != nil {
			t.Fatalf("Decode: %v", err)
		}
		if got != s {
			t.Fatalf("REPRODUCED: Decode(Encode(%q)) = %q (ids %v)", s, got, ids)
		}
	}
	for r := rune(1); r <= 0xffff; r++ {
		if r >= 0xd800 && r <= 0xdfff {
			continue
		}
		check(string(r))
	}
	for r := rune(0x10000); r <= 0x10ffff; r += 257 {
		check(string(r))
	}
	alphabet := []string{"a", "Z", "é", "ß", "0", "7", "٣", " ", "  ", "\t", "\n", "\r", "\r\n", " ", " ", "　",
		".", ",", "'", "'s", "~", "`", "^", "|", "{", "}", "\x7f", "\u0080", "­", "́", "日", "本", "😀", "👍🏽", "-", "_", "@", "#", "<", ">"}
	for _, a := range alphabet {
		for _, b := range alphabet {
			check(a + b)
			check("x" + a + b + "y")
			check(a + b + a)
		}
	}
	for i, v := range tok.vocab.Values {
		if tok.vocab.Types[i] != TOKEN_TYPE_CONTROL {
			continue
		}
		s := "say " + v + " now"
		ids, err := tok.Encode(s, false)
		if err != nil {
			t.Fatal(err)
		}
		found := false
		for _, id := range ids {
			found = found || id == int32(i)
		}
		if !found {
			t.Fatalf("REPRODUCED: Encode(%q) = %v does not contain the special token's id %d", s, ids, i)
		}
		check(s)
	}
	t.Logf("%d texts, %d skipped (contain a non-CONTROL special string %q)", n, skipped, knownBad)
}
