#!/bin/bash
# Bounded stand-in for C20 (labelled bounded, never counted as proved).
# usage: bounded/C20/run.sh     (cwd: /verif; honours GOVC_REPO)
set -u
here="$(cd "$(dirname "$0")" && pwd)"
repo="${GOVC_REPO:-/repo}"
export GOFLAGS=-mod=mod GOPROXY=off
ov=$(mktemp /tmp/c20-overlay.XXXXXX.json)
trap 'rm -f "$ov"' EXIT
printf '{"Replace":{"%s/model/zz_c20_bounded_test.go":"%s/roundtrip_bounded_test.go"}}' "$repo" "$here" > "$ov"
cd "$repo" && timeout 580 go test -overlay "$ov" -vet=off -timeout 540s -run 'TestC20Bounded' -count=1 ./model
