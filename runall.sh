#!/bin/bash
# runall.sh [tier]: run every registered check (4 at a time), one summary line each
cd /verif
tier=${1:-quick}
ids=$(python3 -c "
import json
print(' '.join(c['property_id'] for c in json.load(open('MANIFEST.json'))['checks']))")
mkdir -p .work/runall
printf '%s\n' $ids | xargs -P 4 -I{} sh -c "timeout 3000 ./check {} --tier $tier > .work/runall/{}.out 2>&1; echo rc=\$? >> .work/runall/{}.out"
for id in $ids; do echo "$id $(grep -c '^VIOLATION' .work/runall/$id.out) viol; $(grep -c '^KNOWN-FINDING' .work/runall/$id.out) known; $(tail -1 .work/runall/$id.out); $(grep "^$id:" .work/runall/$id.out)"; done
